"""Bounded-exhaustive (model checking family) verification machinery for magpylib.

Run as ``/venv/bin/python -m mc.run <ID> --tier quick|thorough`` with cwd=/verif.
"""
