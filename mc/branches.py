"""Coverage accounting (never a verdict): sys.setprofile collector of boolean `mask*` locals of the
library's field functions (seen True / seen False) and of the CylinderSegment case ids."""
import sys

import numpy as np


class Collector:
    def __init__(self):
        self.masks = {}      # (function, local) -> [seen_true, seen_false]
        self.case_ids = set()

    def _prof(self, frame, event, arg):
        if event != "return":
            return
        code = frame.f_code
        fn = code.co_filename
        if "/magpylib/_src/fields/" not in fn:
            return
        name = code.co_name
        if name == "determine_cases" and arg is not None:
            try:
                self.case_ids.update(int(x) for x in np.unique(np.asarray(arg)))
            except Exception:
                pass
        for k, v in frame.f_locals.items():
            if k.startswith("mask") and isinstance(v, np.ndarray) and v.dtype == bool and v.size:
                e = self.masks.setdefault((fn.rsplit("/", 1)[-1] + ":" + name, k), [False, False])
                if not e[0] and v.any():
                    e[0] = True
                if not e[1] and not v.all():
                    e[1] = True

    def __enter__(self):
        self._old = sys.getprofile()
        sys.setprofile(self._prof)
        return self

    def __exit__(self, *a):
        sys.setprofile(self._old)

    def report(self):
        both = sorted(f"{f}:{m}" for (f, m), (t, fl) in self.masks.items() if t and fl)
        one = sorted(f"{f}:{m}={'T' if t else 'F'}" for (f, m), (t, fl) in self.masks.items() if t != fl)
        return {"branch_masks_seen_both_ways": len(both), "branch_masks_seen_one_way_only": one,
                "cylinder_segment_case_ids_reached": sorted(self.case_ids)}
