"""Shared plumbing: environment pinning, parallel map, time limits, json helpers."""
import contextlib
import json
import multiprocessing as mp
import os
import signal
import sys
import time
import warnings

VERIF = os.path.dirname(os.path.dirname(os.path.abspath(__file__)))
REPO = os.environ.get("VERIF_REPO", "/repo")
NCPU = int(os.environ.get("VERIF_WORKERS", "0")) or min(16, os.cpu_count() or 1)


def pin_environment():
    """Re-exec once with PYTHONHASHSEED=0 and make sure `import magpylib` resolves to REPO."""
    if os.environ.get("PYTHONHASHSEED") != "0":
        env = dict(os.environ, PYTHONHASHSEED="0", OMP_NUM_THREADS="1", OPENBLAS_NUM_THREADS="1",
                   MKL_NUM_THREADS="1", NUMEXPR_NUM_THREADS="1")
        os.execve(sys.executable, [sys.executable, "-m", "mc.run"] + sys.argv[1:], env)
    bind_repo()


def bind_repo():
    if REPO not in sys.path[:1]:
        sys.path.insert(0, REPO)
    warnings.simplefilter("ignore")
    os.environ.setdefault("MAGPYLIB_VERIF", "1")
    import numpy as np

    np.seterr(all="ignore")
    import magpylib

    got = os.path.realpath(os.path.dirname(os.path.dirname(magpylib.__file__)))
    if got != os.path.realpath(REPO):
        raise SystemExit(f"HARNESS-ERROR magpylib imported from {got}, expected {REPO}")


class CaseTimeout(Exception):
    pass


@contextlib.contextmanager
def time_limit(seconds):
    """SIGALRM based wall-time limit (main thread of a worker process only)."""

    def handler(signum, frame):
        raise CaseTimeout(f"timeout after {seconds}s")

    old = signal.signal(signal.SIGALRM, handler)
    signal.setitimer(signal.ITIMER_REAL, seconds)
    try:
        yield
    finally:
        signal.setitimer(signal.ITIMER_REAL, 0)
        signal.signal(signal.SIGALRM, old)


def _init_worker():
    warnings.simplefilter("ignore")
    import numpy as np

    np.seterr(all="ignore")


def _call_chunk(args):
    func, chunk = args
    return [func(x) for x in chunk]


def pmap(func, items, workers=None, chunk=None):
    """Order-preserving parallel map; result independent of the number of workers.

    `func` must be a module-level function. Uses fork so that module state prepared by the
    parent (baselines, tables) is shared; each task is independent of the others.
    """
    items = list(items)
    workers = workers or NCPU
    if workers <= 1 or len(items) < 2:
        return [func(x) for x in items]
    if chunk is None:
        chunk = max(1, min(256, len(items) // (workers * 8) or 1))
    chunks = [items[i : i + chunk] for i in range(0, len(items), chunk)]
    ctx = mp.get_context("fork")
    # concurrent.futures (not multiprocessing.Pool): a worker that dies (e.g. killed for memory) breaks the pool with an
    # exception instead of leaving the map waiting forever
    from concurrent.futures import ProcessPoolExecutor
    from concurrent.futures.process import BrokenProcessPool

    try:
        with ProcessPoolExecutor(max_workers=workers, mp_context=ctx, initializer=_init_worker) as pool:
            out = list(pool.map(_call_chunk, [(func, c) for c in chunks], chunksize=1))
    except BrokenProcessPool as e:
        raise RuntimeError(f"a worker process died while mapping {getattr(func, '__name__', func)} (killed, out of memory?)") from e
    return [y for c in out for y in c]


def jdump(obj, path):
    os.makedirs(os.path.dirname(path), exist_ok=True)
    tmp = path + ".tmp"
    with open(tmp, "w") as f:
        json.dump(obj, f, indent=1, default=_jdefault)
        f.write("\n")
    os.replace(tmp, path)


def _jdefault(o):
    import numpy as np

    if isinstance(o, np.ndarray):
        return o.tolist()
    if isinstance(o, (np.floating,)):
        return float(o)
    if isinstance(o, (np.integer,)):
        return int(o)
    if isinstance(o, (np.bool_,)):
        return bool(o)
    if isinstance(o, (set, frozenset)):
        return sorted(o, key=repr)
    if isinstance(o, tuple):
        return list(o)
    return repr(o)


def jsonable(o):
    return json.loads(json.dumps(o, default=_jdefault))


class Timer:
    def __init__(self):
        self.t0 = time.time()

    def __call__(self):
        return round(time.time() - self.t0, 3)
