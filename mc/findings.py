"""Known-findings file: read-only at run time.

known_findings.json = {"findings": [ {property, key, status: "open"|"fixed", what, commit?, replay?} ]}
A key may contain '*' wildcards when one defect shows at a family of coordinates that is spelled out
in the entry's `what`; otherwise keys match exactly. `fixed` entries suppress nothing.
"""
import fnmatch
import json
import os

from mc import common

PATH = os.path.join(common.VERIF, "known_findings.json")


def load(pid):
    if not os.path.exists(PATH):
        return []
    with open(PATH) as f:
        data = json.load(f)
    return [e for e in data.get("findings", []) if e["property"] == pid and e.get("status") == "open"]


def match(entries, key):
    for e in entries:
        k = e["key"]
        if k == key or ("*" in k and fnmatch.fnmatchcase(key, k.replace("[", "[[]"))):
            return e
    return None
