"""Exact inside / on-surface / outside predicates in the local frame of each body, and generators
of special-set observer cells. classify() returns +1 strictly inside, -1 strictly outside, 0 within
the relative band `band` of the surface (where only consistency relations are demanded)."""
import numpy as np


def _band_cmp(d, scale, band):
    """d < 0 inside, d > 0 outside; |d| <= band*scale -> 0"""
    out = np.where(d < 0, 1, -1)
    out[np.abs(d) <= band * scale] = 0
    return out


def _combine(parts):
    """intersection of half-space-like constraints: inside all -> 1, outside any -> -1, else 0"""
    parts = np.array(parts)
    res = np.ones(parts.shape[1], int)
    res[np.any(parts == 0, axis=0)] = 0
    res[np.any(parts == -1, axis=0)] = -1
    return res


def classify(cls, par, pts, band=1e-9):
    p = np.atleast_2d(np.array(pts, float))
    x, y, z = p.T
    if cls == "Cuboid":
        a, b, c = np.array(par["dimension"], float) / 2
        s = max(a, b, c)
        return _combine([_band_cmp(np.abs(x) - a, s, band), _band_cmp(np.abs(y) - b, s, band), _band_cmp(np.abs(z) - c, s, band)])
    if cls == "Cylinder":
        d, h = par["dimension"]
        s = max(d / 2, h / 2)
        return _combine([_band_cmp(np.hypot(x, y) - d / 2, s, band), _band_cmp(np.abs(z) - h / 2, s, band)])
    if cls == "CylinderSegment":
        r1, r2, h, p1, p2 = par["dimension"]
        s = max(r2, h / 2)
        r = np.hypot(x, y)
        parts = [_band_cmp(r - r2, s, band), _band_cmp(r1 - r, s, band) if r1 > 0 else np.ones(len(r), int),
                 _band_cmp(np.abs(z) - h / 2, s, band)]
        if p2 - p1 < 360:
            phi = np.rad2deg(np.arctan2(y, x))
            # angular distance inside the sector: positive when outside
            mid, half = (p1 + p2) / 2, (p2 - p1) / 2
            dphi = np.abs((phi - mid + 180) % 360 - 180) - half
            arc = np.deg2rad(dphi) * np.maximum(r, 1e-300)
            pa = _band_cmp(arc, s, band)
            pa[r <= band * s] = 0  # on the axis the angle is undefined
            parts.append(pa)
        return _combine(parts)
    if cls == "Sphere":
        R = par["diameter"] / 2
        return _band_cmp(np.linalg.norm(p, axis=1) - R, R, band)
    if cls in ("Tetrahedron", "TriangularMesh"):
        v = np.array(par["vertices"], float)
        faces = np.array(par["faces"]) if "faces" in par else np.array([(0, 1, 2), (0, 1, 3), (0, 2, 3), (1, 2, 3)])
        cen = v.mean(axis=0)
        s = np.max(np.linalg.norm(v - cen, axis=1))
        parts = []
        for f in faces:  # convex bodies only
            a, b, c = v[f]
            n = np.cross(b - a, c - a)
            n = n / np.linalg.norm(n)
            if np.dot(cen - a, n) > 0:
                n = -n
            parts.append(_band_cmp((p - a) @ n, s, band))
        return _combine(parts)
    raise AssertionError(cls)


def size_of(cls, par):
    if cls in ("Cuboid",):
        return float(np.max(par["dimension"])) / 2
    if cls == "Cylinder":
        return float(max(par["dimension"][0] / 2, par["dimension"][1] / 2))
    if cls == "CylinderSegment":
        return float(max(par["dimension"][1], par["dimension"][2] / 2))
    if cls == "Sphere":
        return par["diameter"] / 2
    if "vertices" in par:
        v = np.array(par["vertices"], float)
        return float(np.max(np.linalg.norm(v - v.mean(axis=0), axis=1)))
    if "diameter" in par:
        return par["diameter"] / 2
    return 1.0


def axis_values(a, near=(1e-3,), far=(1.7, 30.0)):
    """coordinate values relative to half-extent a: centre, inside, both sides of the surface, exact surface, far"""
    vals = [0.0, 0.3 * a, -0.3 * a, a, -a]
    for e in near:
        vals += [a * (1 - e), a * (1 + e), -a * (1 - e), -a * (1 + e)]
    vals += [np.nextafter(a, 0), np.nextafter(a, np.inf), -np.nextafter(a, 0), -np.nextafter(a, np.inf)]
    for f in far:
        vals += [f * a, -f * a]
    return vals


def cells(cls, par, level="full"):
    """observer cells in the local frame incl. exact special sets (faces, edges, corners, rim, axis, cut planes)"""
    pts = []
    if cls == "Cuboid":
        a, b, c = np.array(par["dimension"], float) / 2
        xs, ys, zs = axis_values(a), axis_values(b), axis_values(c)
        if level != "full":
            xs, ys, zs = xs[:9], ys[:9], zs[:9]
        for X in xs:
            for Y in ys:
                for Z in zs:
                    pts.append((X, Y, Z))
    elif cls in ("Cylinder", "Circle"):
        if cls == "Cylinder":
            r0, z0 = par["dimension"][0] / 2, par["dimension"][1] / 2
        else:
            r0, z0 = par["diameter"] / 2, par["diameter"] / 2
        rs = [0.0, 1e-3 * r0, 0.049 * r0, 0.05 * r0, 0.051 * r0, 0.3 * r0, r0 * (1 - 1e-3), np.nextafter(r0, 0), r0,
              np.nextafter(r0, np.inf), r0 * (1 + 1e-3), 1.7 * r0, 30 * r0]
        zs = [0.0] + [v for v in axis_values(z0) if v != 0.0]
        if cls == "Circle":
            zs = [0.0, 1e-3 * r0, -1e-3 * r0, 0.3 * r0, -0.3 * r0, 1.7 * r0, -30 * r0]
        for r in rs:
            for zz in zs:
                for ph in (0.0, 0.7, np.pi / 2, 2.5, np.pi, -1.9):
                    pts.append((r * np.cos(ph), r * np.sin(ph), zz))
    elif cls == "CylinderSegment":
        r1, r2, h, p1, p2 = par["dimension"]
        rs = [0.0, 1e-3 * r2, r2, r2 * (1 - 1e-3), r2 * (1 + 1e-3), (r1 + r2) / 2, 1.7 * r2]
        if r1 > 0:
            rs += [r1, r1 * (1 - 1e-3), r1 * (1 + 1e-3), r1 / 2]
        phs = [p1, p2, p1 + 180, p2 + 180, (p1 + p2) / 2, (p1 + p2) / 2 + 180, p1 + 1e-2, p1 - 1e-2, p2 + 1e-2, p2 - 1e-2, 0, 90, 180, -90]
        zs = [0.0, 0.3 * h, h / 2, -h / 2, h / 2 * (1 - 1e-3), h / 2 * (1 + 1e-3), -h / 2 * (1 + 1e-3), 0.85 * h]
        for r in rs:
            for ph in phs:
                for zz in zs:
                    t = np.deg2rad(ph)
                    pts.append((r * np.cos(t), r * np.sin(t), zz))
    elif cls in ("Sphere", "Dipole"):
        R = par["diameter"] / 2 if cls == "Sphere" else 1.0
        dirs = [(1, 0, 0), (0, 1, 0), (0, 0, 1), (-1, 0, 0), (0, 0, -1), (0.3, -0.5, 0.8), (-0.6, 0.6, 0.5), (0.7, 0.7, 0.1),
                (-0.2, -0.9, -0.4)]
        rads = [0.0, 1e-3, 0.3, 1 - 1e-3, np.nextafter(1.0, 0), 1.0, np.nextafter(1.0, 2), 1 + 1e-3, 1.7, 30.0, 1e3]
        for d in dirs:
            d = np.array(d, float) / np.linalg.norm(d)
            for f in rads:
                pts.append(tuple(d * f * R))
    elif cls in ("Tetrahedron", "TriangularMesh", "Triangle"):
        v = np.array(par["vertices"], float)
        faces = np.array(par["faces"]) if "faces" in par else (
            np.array([(0, 1, 2)]) if len(v) == 3 else np.array([(0, 1, 2), (0, 1, 3), (0, 2, 3), (1, 2, 3)]))
        cen = v.mean(axis=0)
        s = np.max(np.linalg.norm(v - cen, axis=1))
        pts += [tuple(cen), tuple(cen + (0.01 * s, 0.02 * s, -0.015 * s))]
        for f in faces[:6]:
            a, b, c = v[f]
            n = np.cross(b - a, c - a)
            n /= np.linalg.norm(n)
            fc = (a + b + c) / 3
            for off in (0.0, 1e-3 * s, -1e-3 * s, 0.3 * s, -0.3 * s, 1.7 * s, 30 * s):
                pts.append(tuple(fc + n * off))
            # in-plane outside the face, edge extension, edge midpoint, near vertex
            pts.append(tuple(a + 1.5 * (b - a)))              # on the extension of edge ab
            pts.append(tuple(a + 1.5 * (b - a) + n * 1e-3 * s))
            pts.append(tuple((a + b) / 2))                    # edge midpoint
            pts.append(tuple(a + (fc - a) * 1e-3))            # next to a vertex
            pts.append(tuple(fc + 2.0 * (fc - c)))            # in the face plane, outside
        for w in v[:4]:
            pts.append(tuple(w))                              # the vertices themselves (documented singular points)
    elif cls == "Polyline":
        v = np.array(par["vertices"], float)
        s = np.max(np.linalg.norm(v - v.mean(axis=0), axis=1))
        for a, b in zip(v[:-1], v[1:]):
            d = b - a
            t = np.cross(d, (0.3, 0.5, 0.8))
            t /= np.linalg.norm(t)
            for lam in (-0.5, 0.0, 0.3, 1.0, 1.5):
                base = a + lam * d
                for off in (0.0, 1e-3 * s, 0.3 * s, 30 * s):
                    pts.append(tuple(base + t * off))
    else:
        raise AssertionError(cls)
    # de-duplicate preserving order
    seen, out = set(), []
    for q in pts:
        k = tuple(float(u) for u in q)
        if k not in seen:
            seen.add(k)
            out.append(k)
    return np.array(out, float)
