"""Reference model of object paths (DESIGN Appendix A.1). Boring on purpose: python lists of
3-vectors and 3x3 matrices. `last_map[m]` = index of the old path entry the new entry m descends from."""
import numpy as np


def pad_params(L, scalar, n, start):
    """returns (pad_before, pad_behind, first, last+1) for a path of length L"""
    if start == "auto":
        start = 0 if scalar else L
    pb = 0
    if start < 0:
        start = L + start
        if start < 0:
            pb, start = -start, 0
    ln = 1 if scalar else n
    pe = max(0, start + ln - (L + pb))
    newL = pb + L + pe
    end = newL if scalar else start + n
    return pb, pe, start, end


class PathModel:
    def __init__(self, pos, mats):
        self.p = [np.array(x, float) for x in np.reshape(pos, (-1, 3))]
        self.m = [np.array(x, float) for x in np.reshape(mats, (-1, 3, 3))]
        assert len(self.p) == len(self.m)
        self.last_map = list(range(len(self.p)))

    def copy(self):
        return PathModel(np.array(self.p), np.array(self.m))

    @property
    def L(self):
        return len(self.p)

    def _pad(self, scalar, n, start):
        L = self.L
        pb, pe, a, b = pad_params(L, scalar, n, start)
        self.p = [self.p[0]] * pb + self.p + [self.p[-1]] * pe
        self.m = [self.m[0]] * pb + self.m + [self.m[-1]] * pe
        self.last_map = [min(max(i - pb, 0), L - 1) for i in range(self.L)]
        return a, b

    def move(self, d, start="auto"):
        d = np.array(d, float)
        scalar = d.ndim == 1
        a, b = self._pad(scalar, None if scalar else len(d), start)
        for i in range(a, b):
            self.p[i] = self.p[i] + (d if scalar else d[i - a])

    def rotate(self, M, anchor=None, start="auto", parent_anchor=None):
        """M: (3,3) or (k,3,3) matrices; anchor None | 0 | (3,) | (k,3)"""
        M = np.array(M, float)
        scalar = M.ndim == 2
        if anchor is not None:
            anchor = np.zeros(3) if (np.isscalar(anchor) and anchor == 0) else np.array(anchor, float)
            la = 0 if anchor.ndim == 1 else len(anchor)
            lr = 0 if scalar else len(M)
            if lr > la:
                if la == 0:
                    anchor = anchor.reshape(1, 3)
                    la = 1
                anchor = np.concatenate([anchor, np.repeat(anchor[-1:], lr - la, 0)])
            elif lr < la:
                if lr == 0:
                    M = M.reshape(1, 3, 3)
                    lr = 1
                M = np.concatenate([M, np.repeat(M[-1:], la - lr, 0)])
                scalar = False
        n = None if scalar else len(M)
        a, b = self._pad(scalar, n, start)
        for i in range(a, b):
            Mi = M if scalar else M[i - a]
            if anchor is not None:
                an = anchor if anchor.ndim == 1 else anchor[i - a]
                self.p[i] = an + Mi @ (self.p[i] - an)
            self.m[i] = Mi @ self.m[i]

    def set_position(self, v):
        v = np.array(v, float).reshape(-1, 3)
        n, L = len(v), self.L
        if n >= L:
            self.m = self.m + [self.m[-1]] * (n - L)
            self.last_map = [min(i, L - 1) for i in range(n)]
        else:
            self.m = self.m[L - n:]
            self.last_map = [i + (L - n) for i in range(n)]
        self.p = [x.copy() for x in v]

    def set_orientation(self, M):
        M = np.eye(3).reshape(1, 3, 3) if M is None else np.array(M, float).reshape(-1, 3, 3)
        n, L = len(M), self.L
        if n >= L:
            self.p = self.p + [self.p[-1]] * (n - L)
            self.last_map = [min(i, L - 1) for i in range(n)]
        else:
            self.p = self.p[L - n:]
            self.last_map = [i + (L - n) for i in range(n)]
        self.m = [x.copy() for x in M]

    def reset(self):
        self.set_position((0, 0, 0))
        m1 = list(self.last_map)
        self.set_orientation(None)
        self.last_map = [m1[i] for i in self.last_map]

    def arrays(self):
        return np.array(self.p), np.array(self.m)
