"""First-principles reference fields by adaptive tensor Gauss-Legendre quadrature.

Magnets:  H(r) = 1/(4 pi mu0) * closed-surface integral of (J.n)(r - r')/|r - r'|^3 dS',  B = mu0 H + J [r inside]
Currents: H(r) = I/(4 pi) * line integral of dl' x (r - r')/|r - r'|^3
Dipole:   H(r) = 1/(4 pi) * (3 r (m.r)/r^5 - m/r^3)

For magnets the 3x3 tensor T_ij = integral n_i (r - r')_j / |r - r'|^3 dS is integrated once per
observer, so that H_j = sum_i J_i T_ij / (4 pi mu0) for ANY polarization. Every result comes with an
error bound (sum of |G16 - G8| over accepted cells); caps on cells / levels / wall time make a case
'inconclusive' instead of slow. Tolerances are relative to the running magnitude of the integral.
"""
import time

import numpy as np
from numpy.polynomial.legendre import leggauss

X8, W8 = leggauss(8)
X16, W16 = leggauss(16)
MU0 = 4e-7 * np.pi * 1.00000000055  # placeholder, replaced by magpylib.mu_0 through set_mu0()


def set_mu0(v):
    global MU0
    MU0 = float(v)


class Inconclusive(Exception):
    pass


def _gl2(f, u0, u1, v0, v1, X, W):
    hu, hv = (u1 - u0) / 2, (v1 - v0) / 2
    cu, cv = (u1 + u0) / 2, (v1 + v0) / 2
    U = cu[:, None, None] + hu[:, None, None] * X[None, :, None]
    V = cv[:, None, None] + hv[:, None, None] * X[None, None, :]
    U = np.broadcast_to(U, (len(u0), len(X), len(X)))
    V = np.broadcast_to(V, (len(u0), len(X), len(X)))
    F = f(U, V)  # (n, q, q, k)
    Wt = (W[:, None] * W[None, :])[None, :, :, None]
    return np.sum(F * Wt, axis=(1, 2)) * (hu * hv)[:, None]


def adapt2(f, ulim, vlim, rtol, k, scale=0.0, maxlev=40, init=(2, 2), maxcells=20000, deadline=None):
    """integrate f(U,V)->(...,k) over a rectangle; returns (value, error bound). Raises Inconclusive on caps."""
    us = np.linspace(ulim[0], ulim[1], init[0] + 1)
    vs = np.linspace(vlim[0], vlim[1], init[1] + 1)
    u0, v0 = np.meshgrid(us[:-1], vs[:-1], indexing="ij")
    u1, v1 = np.meshgrid(us[1:], vs[1:], indexing="ij")
    u0, u1, v0, v1 = [a.ravel() for a in (u0, u1, v0, v1)]
    area = (ulim[1] - ulim[0]) * (vlim[1] - vlim[0])
    total = np.zeros(k)
    err = 0.0
    pending = None
    for lev in range(maxlev):
        if len(u0) == 0:
            break
        if deadline is not None and time.time() > deadline:
            raise Inconclusive("time cap")
        if len(u0) > maxcells:
            raise Inconclusive("cell cap")
        I8 = _gl2(f, u0, u1, v0, v1, X8, W8)
        I16 = _gl2(f, u0, u1, v0, v1, X16, W16)
        e = np.linalg.norm(I16 - I8, axis=1)
        running = np.linalg.norm(total + I16.sum(0))
        frac = ((u1 - u0) * (v1 - v0)) / area
        ok = e <= rtol * max(running, scale) * np.maximum(frac, 1e-6)
        total += I16[ok].sum(0)
        err += e[ok].sum()
        nb = ~ok
        if not nb.any():
            return total, err
        a0, a1, b0, b1 = u0[nb], u1[nb], v0[nb], v1[nb]
        am, bm = (a0 + a1) / 2, (b0 + b1) / 2
        u0 = np.concatenate([a0, am, a0, am])
        u1 = np.concatenate([am, a1, am, a1])
        v0 = np.concatenate([b0, b0, bm, bm])
        v1 = np.concatenate([bm, bm, b1, b1])
    if len(u0):
        raise Inconclusive("level cap")
    return total, err


def adapt1(f, lim, rtol, k, scale=0.0, maxlev=50, init=4, maxcells=20000, deadline=None):
    ts = np.linspace(lim[0], lim[1], init + 1)
    a, b = ts[:-1], ts[1:]
    total = np.zeros(k)
    err = 0.0
    for lev in range(maxlev):
        if len(a) == 0:
            break
        if deadline is not None and time.time() > deadline:
            raise Inconclusive("time cap")
        if len(a) > maxcells:
            raise Inconclusive("cell cap")
        h, c = (b - a) / 2, (a + b) / 2

        def gl(X, W):
            T = c[:, None] + h[:, None] * X[None, :]
            return np.sum(f(T) * W[None, :, None], axis=1) * h[:, None]

        I8, I16 = gl(X8, W8), gl(X16, W16)
        e = np.linalg.norm(I16 - I8, axis=1)
        running = np.linalg.norm(total + I16.sum(0))
        ok = e <= rtol * max(running, scale) * np.maximum((b - a) / (lim[1] - lim[0]), 1e-9)
        total += I16[ok].sum(0)
        err += e[ok].sum()
        nb = ~ok
        if not nb.any():
            return total, err
        a0, b0 = a[nb], b[nb]
        m = (a0 + b0) / 2
        a, b = np.concatenate([a0, m]), np.concatenate([m, b0])
    if len(a):
        raise Inconclusive("level cap")
    return total, err


# ------------------------------------------------------------------ surface patches (local frame)
# a patch is (P, ulim, vlim) with P(U,V) -> (position (...,3), unit normal (...,3), dS weight (...))
def rect_patch(origin, eu, ev, lu, lv, n):
    origin, eu, ev, n = [np.array(x, float) for x in (origin, eu, ev, n)]

    def P(U, V):
        return origin + U[..., None] * eu + V[..., None] * ev, np.broadcast_to(n, U.shape + (3,)), np.ones(U.shape)

    return P, (0, lu), (0, lv)


def cuboid_patches(dim):
    a, b, c = np.array(dim, float) / 2
    return [rect_patch((a, -b, -c), (0, 1, 0), (0, 0, 1), 2 * b, 2 * c, (1, 0, 0)),
            rect_patch((-a, -b, -c), (0, 1, 0), (0, 0, 1), 2 * b, 2 * c, (-1, 0, 0)),
            rect_patch((-a, b, -c), (1, 0, 0), (0, 0, 1), 2 * a, 2 * c, (0, 1, 0)),
            rect_patch((-a, -b, -c), (1, 0, 0), (0, 0, 1), 2 * a, 2 * c, (0, -1, 0)),
            rect_patch((-a, -b, c), (1, 0, 0), (0, 1, 0), 2 * a, 2 * b, (0, 0, 1)),
            rect_patch((-a, -b, -c), (1, 0, 0), (0, 1, 0), 2 * a, 2 * b, (0, 0, -1))]


def cylseg_patches(r1, r2, h, p1, p2):
    """angles in rad; a full ring (p2 - p1 = 2 pi) has no cut planes"""
    out = []
    z1, z2 = -h / 2, h / 2
    full = abs((p2 - p1) - 2 * np.pi) < 1e-12

    def hull(r, sgn):
        def P(U, V):  # U = phi, V = z
            n = np.stack([np.cos(U), np.sin(U), 0 * U], -1)
            return np.stack([r * np.cos(U), r * np.sin(U), V], -1), sgn * n, np.full(U.shape, r)
        return P, (p1, p2), (z1, z2)

    out.append(hull(r2, 1))
    if r1 > 0:
        out.append(hull(r1, -1))

    def cap(z, sgn):
        def P(U, V):  # U = r, V = phi
            n = np.broadcast_to(np.array((0, 0, float(sgn))), U.shape + (3,))
            return np.stack([U * np.cos(V), U * np.sin(V), np.full(U.shape, z)], -1), n, U
        return P, (r1, r2), (p1, p2)

    out += [cap(z2, 1), cap(z1, -1)]
    if not full:
        def cut(p, sgn):
            n0 = sgn * np.array([-np.sin(p), np.cos(p), 0.0])

            def P(U, V):  # U = r, V = z
                return np.stack([U * np.cos(p), U * np.sin(p), V], -1), np.broadcast_to(n0, U.shape + (3,)), np.ones(U.shape)
            return P, (r1, r2), (z1, z2)
        out += [cut(p2, 1), cut(p1, -1)]
    return out


def sphere_patches(R):
    def P(U, V):  # U = theta, V = phi
        n = np.stack([np.sin(U) * np.cos(V), np.sin(U) * np.sin(V), np.cos(U)], -1)
        return R * n, n, R * R * np.sin(U)
    return [(P, (0, np.pi), (0, 2 * np.pi))]


def tri_patch(v0, v1, v2, flip=1):
    v0, v1, v2 = [np.array(x, float) for x in (v0, v1, v2)]
    nn = np.cross(v1 - v0, v2 - v0)
    A2 = np.linalg.norm(nn)
    n = flip * nn / A2

    def P(U, V):  # Duffy: x = v0 + U (v1 - v0) + U V (v2 - v1), jacobian U * A2
        return v0 + U[..., None] * (v1 - v0) + (U * V)[..., None] * (v2 - v1), np.broadcast_to(n, U.shape + (3,)), U * A2
    return P, (0, 1), (0, 1)


def mesh_patches(vertices, faces):
    """closed mesh with arbitrary face orientation: normals are made outward by the signed-volume rule"""
    v = np.array(vertices, float)
    f = np.array(faces)
    c = v.mean(axis=0)
    out = []
    for t in f:
        a, b, d = v[t]
        n = np.cross(b - a, d - a)
        out.append(tri_patch(a, b, d, 1 if np.dot(n, a - c) > 0 else -1))  # convex bodies
    return out


def surface_tensor(obs, patches, rtol=1e-11, budget_s=20.0):
    """T_ij = integral n_i (obs - r')_j / |obs - r'|^3 dS' over all patches; returns (T (3,3), error bound (3,3)-norm)"""
    obs = np.array(obs, float)
    deadline = time.time() + budget_s
    T = np.zeros(9)
    E = 0.0
    # first pass: coarse estimate of the magnitude for the relative tolerance
    est = 0.0
    for P, ul, vl in patches:
        def f(U, V, P=P):
            r, n, w = P(U, V)
            d = obs - r
            k = w / np.sum(d * d, axis=-1) ** 1.5
            return (n[..., :, None] * d[..., None, :]).reshape(U.shape + (9,)) * k[..., None]
        I = _gl2(f, np.array([ul[0]]), np.array([ul[1]]), np.array([vl[0]]), np.array([vl[1]]), X16, W16)
        est += np.linalg.norm(I)
    for P, ul, vl in patches:
        def f(U, V, P=P):
            r, n, w = P(U, V)
            d = obs - r
            k = w / np.sum(d * d, axis=-1) ** 1.5
            return (n[..., :, None] * d[..., None, :]).reshape(U.shape + (9,)) * k[..., None]
        I, e = adapt2(f, ul, vl, rtol, 9, scale=est * 1e-3, deadline=deadline)
        T += I
        E += e
    return T.reshape(3, 3), E


def H_magnet(T, J):
    """H from the tensor for polarization J (T/m -> A/m)"""
    return (np.array(J, float) @ T) / (4 * np.pi * MU0)


def H_curve(obs, curve, lim, current, rtol=1e-12, budget_s=20.0):
    """Biot-Savart; curve(T) -> (r(T), dr/dT)"""
    obs = np.array(obs, float)

    def f(T):
        r, dr = curve(T)
        d = obs - r
        return np.cross(dr, d) / (np.sum(d * d, -1) ** 1.5)[..., None]

    val, e = adapt1(f, lim, rtol, 3, deadline=time.time() + budget_s)
    return val * current / (4 * np.pi), e * abs(current) / (4 * np.pi)


def circle_curve(r0):
    def c(T):
        return (np.stack([r0 * np.cos(T), r0 * np.sin(T), 0 * T], -1),
                np.stack([-r0 * np.sin(T), r0 * np.cos(T), 0 * T], -1))
    return c, (0.0, 2 * np.pi)


def segment_curve(a, b):
    a, b = np.array(a, float), np.array(b, float)

    def c(T):
        return a + T[..., None] * (b - a), np.broadcast_to(b - a, T.shape + (3,))
    return c, (0.0, 1.0)


def H_dipole(obs, m):
    r = np.array(obs, float)
    m = np.array(m, float)
    rn = np.linalg.norm(r)
    return (3 * r * np.dot(m, r) / rn ** 5 - m / rn ** 3) / (4 * np.pi)


# ------------------------------------------------------------------ far field: volume dipole-density integral
# H(r) = 1/(4 pi mu0) * integral over the body of [3 d (J.d)/|d|^5 - J/|d|^3] dV,  d = r - r'
# (magnetization = dipole density). No cancellation between surfaces, smooth integrand for outside
# observers: fixed tensor Gauss-Legendre orders n and n+8 give value and error estimate.
# The tensor K_ij = integral [3 d_i d_j/|d|^5 - delta_ij/|d|^3] dV gives H_j = sum_i J_i K_ij/(4 pi mu0).
def _cube_nodes(n):
    X, W = leggauss(n)
    x = (X + 1) / 2
    w = W / 2
    U, V, Wd = np.meshgrid(x, x, x, indexing="ij")
    WW = w[:, None, None] * w[None, :, None] * w[None, None, :]
    return U, V, Wd, WW


def volume_cells(cls, par):
    """list of maps (u,v,w in [0,1]^3) -> (position (...,3), jacobian (...))"""
    maps = []
    if cls == "Cuboid":
        a, b, c = np.array(par["dimension"], float)

        def m(U, V, W):
            return np.stack([(U - 0.5) * a, (V - 0.5) * b, (W - 0.5) * c], -1), np.full(U.shape, a * b * c)
        maps.append(m)
    elif cls in ("Cylinder", "CylinderSegment"):
        if cls == "Cylinder":
            r1, r2, h, p1, p2 = 0.0, par["dimension"][0] / 2, par["dimension"][1], 0.0, 360.0
        else:
            r1, r2, h, p1, p2 = par["dimension"]
        nseg = max(1, int(np.ceil((p2 - p1) / 90.0)))
        for k in range(nseg):
            q1 = np.deg2rad(p1 + (p2 - p1) * k / nseg)
            q2 = np.deg2rad(p1 + (p2 - p1) * (k + 1) / nseg)

            def m(U, V, W, q1=q1, q2=q2):
                r = r1 + (r2 - r1) * U
                ph = q1 + (q2 - q1) * V
                z = (W - 0.5) * h
                return np.stack([r * np.cos(ph), r * np.sin(ph), z], -1), r * (r2 - r1) * (q2 - q1) * h
            maps.append(m)
    elif cls == "Sphere":
        R = par["diameter"] / 2
        for k in range(4):
            def m(U, V, W, k=k):
                r = R * U
                th = np.pi * V
                ph = np.pi / 2 * (k + W)
                return (np.stack([r * np.sin(th) * np.cos(ph), r * np.sin(th) * np.sin(ph), r * np.cos(th)], -1),
                        r * r * np.sin(th) * R * np.pi * np.pi / 2)
            maps.append(m)
    elif cls in ("Tetrahedron", "TriangularMesh"):
        v = np.array(par["vertices"], float)
        faces = np.array(par["faces"]) if "faces" in par else np.array([(0, 1, 2), (0, 1, 3), (0, 2, 3), (1, 2, 3)])
        c = v.mean(axis=0)
        for t in faces:  # convex: tetrahedra (centroid, face)
            a, b, d = v[t]
            vol6 = abs(np.dot(np.cross(a - c, b - c), d - c))

            def m(U, V, W, a=a, b=b, d=d, vol6=vol6):
                pos = c + U[..., None] * (a - c) + (U * V)[..., None] * (b - a) + (U * V * W)[..., None] * (d - b)
                return pos, U * U * V * vol6
            maps.append(m)
    else:
        raise AssertionError(cls)
    return maps


def volume_tensor(obs, cls, par, n=12):
    obs = np.array(obs, float)

    def integ(n):
        U, V, W, WW = _cube_nodes(n)
        K = np.zeros((3, 3))
        for m in volume_cells(cls, par):
            pos, jac = m(U, V, W)
            d = obs - pos
            n2 = np.sum(d * d, -1)
            w = WW * jac
            K += 3 * np.einsum("abci,abcj,abc->ij", d, d, w / n2 ** 2.5) - np.eye(3) * np.sum(w / n2 ** 1.5)
        return K

    K1, K2 = integ(n), integ(n + 8)
    return K2, float(np.linalg.norm(K2 - K1))
