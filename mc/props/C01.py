"""C01 - fields equal the magnetostatic integrals they claim to solve.

Grid explorer: class x geometry regime x observer cell (both sides of every internal switch and of
every special set, at relative surface distances 1e-3 ... 1e3) x excitation x pose x field, each
compared with a first-principles quadrature reference that carries its own error bound
(mc/oracles/quadrature.py). The reference is computed once per (class, regime, local observer) as a
polarization-independent tensor, so every excitation, pose and field of the menu is checked against it.
VERIF_SEED selects one of four fixed representative sets for the open cells.
"""
import os
import pickle
import time

import numpy as np

from mc import common
from mc.oracles import geometry as geo
from mc.oracles import quadrature as Q

LEVEL = "exploration"

TV = [(-0.5, -0.4, -0.3), (0.9, -0.3, -0.4), (-0.2, 0.8, -0.3), (0.0, 0.0, 0.9)]
TF = [(0, 2, 1), (0, 1, 3), (0, 3, 2), (1, 2, 3)]
CUBE_V = [(x * 0.5, y * 0.6, z * 0.4) for x in (-1, 1) for y in (-1, 1) for z in (-1, 1)]
CUBE_F = [(0, 1, 3), (0, 3, 2), (4, 6, 7), (4, 7, 5), (0, 4, 5), (0, 5, 1), (2, 3, 7), (2, 7, 6), (0, 2, 6), (0, 6, 4),
          (1, 5, 7), (1, 7, 3)]
PRISM_V = [(0, 0, 0), (1.4, 0, 0), (0.3, 1.1, 0), (0, 0, 0.9), (1.4, 0, 0.9), (0.3, 1.1, 0.9)]
PRISM_F = [(0, 2, 1), (3, 4, 5), (0, 1, 4), (0, 4, 3), (1, 2, 5), (1, 5, 4), (2, 0, 3), (2, 3, 5)]
REGIMES = {
    "Cuboid": [{"dimension": (1.0, 1.2, 0.8)}, {"dimension": (2.0, 0.1, 1.0)}, {"dimension": (0.2, 0.25, 3.0)}],
    "Cylinder": [{"dimension": (1.0, 1.2)}, {"dimension": (2.0, 0.1)}, {"dimension": (0.3, 3.0)}],
    "CylinderSegment": [{"dimension": (0.3, 0.9, 1.1, -30, 200)}, {"dimension": (0.0, 0.8, 1.0, 20, 110)},
                        {"dimension": (0.4, 1.0, 0.6, 0, 360)}, {"dimension": (0.2, 0.5, 1.0, 0, 90)},
                        {"dimension": (0.0, 0.5, 1.0, 0, 180)}, {"dimension": (0.2, 0.5, 1.0, -180, 0)},
                        {"dimension": (0.2, 0.5, 1.0, -270, -100)}],
    "Sphere": [{"diameter": 1.1}],
    "Tetrahedron": [{"vertices": TV}],
    "TriangularMesh": [{"vertices": TV, "faces": TF}, {"vertices": CUBE_V, "faces": CUBE_F}, {"vertices": PRISM_V, "faces": PRISM_F}],
    "Triangle": [{"vertices": TV[:3]}, {"vertices": [(0, 0, 0), (2, 0, 0), (0.1, 0.2, 0)]}],
    "Circle": [{"diameter": 1.3}],
    "Polyline": [{"vertices": [(0, 0, 0), (1, 1, 0.5)]}, {"vertices": [(0, 0, 0), (1, 1, 0.5), (1, 2, -0.4)]},
                 {"vertices": [(0, 0, 0), (1, 0, 0), (1, 1, 0), (0, 1, 0), (0, 0, 0)]}],
    "Dipole": [{}],
}
MAGNETS = ["Cuboid", "Cylinder", "CylinderSegment", "Sphere", "Tetrahedron", "TriangularMesh"]
EXC = [(0.2, -0.3, 0.9), (1.0, 0.0, 0.0), (0.0, 1.0, 0.0), (0.0, 0.0, 1.0)]
POSES = [((0.0, 0.0, 0.0), (0.0, 0.0, 0.0)), ((0.3, -0.2, 0.5), (0.4, -0.3, 0.8)), ((-1.0, 2.0, 0.1), (0.0, 0.0, 2.2))]
SEEDF = [(0.3, 1.7, 1e-3, 0.7), (0.37, 1.9, 2e-3, 1.1), (0.23, 1.5, 5e-4, 2.0), (0.41, 2.3, 3e-3, 2.9)]
# relative tolerance per class (|lib - ref| / |ref|): calibrated on the unchanged tree over all four seeds with margin,
# never above 1e-3. far-field growth: the library documents cancellation ~ (distance/size)^3 * eps for magnets.
TOL = {"Cuboid": 1e-10, "Cylinder": 1e-5, "CylinderSegment": 5e-4, "Sphere": 1e-12, "Tetrahedron": 1e-7, "TriangularMesh": 1e-7,
       "Triangle": 1e-7, "Circle": 1e-10, "Polyline": 1e-9, "Dipole": 1e-11}
# cells next to an edge / segment extension line (documented caveat), relative to the natural field there
TOL_EXT = 1e-7
TOL_EXT_CLS = {"Polyline": 1e-5}   # |sin(th1) - sin(th2)| / rho cancels next to the extension line of a segment
FAR_GROWTH = {"Cuboid": 1e-13, "Cylinder": 1e-13, "CylinderSegment": 1e-13, "Tetrahedron": 1e-12, "TriangularMesh": 1e-12,
              "Triangle": 1e-12}


# ------------------------------------------------------------------ observer cells
def cells(cls, par, tier, seed):
    """returns (points, ext) - ext marks cells next to an edge / segment extension line (documented caveat zone)"""
    f_in, f_out, eps, phase = SEEDF[seed % 4]
    pts = []
    ext = set()
    if cls == "Cuboid":
        a, b, c = np.array(par["dimension"], float) / 2
        near = [0.0, f_in, -f_in, 1 - eps, -(1 - eps), 1 + eps, -(1 + eps)]
        if tier == "quick":
            near = [0.0, f_in, -(1 - eps), 1 + eps, -f_in]
        # exact face-plane / edge-line extensions outside the body (observers on the surface itself are filtered out later)
        for ax in range(3):
            for sg in (1.0, -1.0):
                for u, w in ((f_out, f_in), (-f_out, f_out), (sg, f_out), (f_out, 0.0)):
                    pts.append(tuple(np.roll(np.array([sg, u, w]), ax) * np.array([a, b, c])))
        for x in near:
            for y in near:
                for z in near:
                    pts.append((x * a, y * b, z * c))
        if tier == "thorough":  # 1e-6 sizes from an edge line, inside the edge's extent (log-divergent but finite field)
            for sx, sy in ((1, 1), (-1, -1), (1, -1)):
                pts.append((a * (1 + sx * 1e-6), b * (1 + sy * 1e-6), f_in * c))
                pts.append((f_in * a, b * (1 + sx * 1e-6), -c * (1 + sy * 1e-6)))
        far = [f_out, -f_out, 30.0, -30.0, 1e3]
        mid = [0.0, f_in, -f_out]
        for ax in range(3):
            for fv in far:
                for u in mid:
                    for w in (mid if tier == "thorough" else mid[:2]):
                        pts.append(tuple(np.roll(np.array([u, w, fv]), ax) * np.array([a, b, c])))
    elif cls in ("Cylinder", "Circle"):
        if cls == "Cylinder":
            r0, z0 = par["dimension"][0] / 2, par["dimension"][1] / 2
            zs = [0.0, f_in, -f_in, 1 - eps, -(1 - eps), 1 + eps, -(1 + eps), f_out, -f_out, 30.0, -30.0]
        else:
            r0 = z0 = par["diameter"] / 2
            zs = [0.0, eps, -eps, f_in, -f_in, f_out, -30.0, 1e3]
        rs = [0.0, 1e-3, 0.049, 0.051, f_in, 1 - eps, 1 + eps, f_out, 30.0, 1e3]
        if cls == "Circle":
            rs += [1.0]
        else:  # exact hull / base-plane extensions outside the body
            rs += [1.0, 0.05]
            zs += [1.0, -1.0]
        phis = [phase, 0.0, np.pi / 2, np.pi, phase + 2.5, -phase - 1.0] if tier == "thorough" else [phase, 0.0, -phase - 1.0]
        if tier == "quick":
            zs = zs[:7] + zs[-2:-1] if cls == "Cylinder" else zs
        for r in rs:
            for z in zs:
                for ph in (phis if r > 0 else [0.0]):
                    if cls == "Circle" and r == 1.0 and abs(z) < 1e-12:
                        continue  # on the wire
                    pts.append((r * r0 * np.cos(ph), r * r0 * np.sin(ph), z * z0))
    elif cls == "CylinderSegment":
        r1, r2, h, p1, p2 = par["dimension"]
        rs = [0.0, 1e-3 * r2, r2 * (1 - eps), r2 * (1 + eps), (r1 + r2) / 2 * (1 + 0.1 * (f_in - 0.3)), f_out * r2, 30 * r2]
        if r1 > 0:
            rs += [r1 * (1 - eps), r1 * (1 + eps), r1 * f_in]
        span = p2 - p1
        phs = [p1 + span * f_in, p1 + span * (1 - f_in) + 180, p1 + 0.5, p1 - 0.5, p2 + 0.5, p2 - 0.5, p1 + 180, p2 + 180]
        if tier == "thorough":
            phs += [0.0, 90.0, 180.0, -90.0, p1 + span / 2, p1 + 180 + 0.5]
        zs = [0.0, f_in * h / 2, h / 2 * (1 - eps), h / 2 * (1 + eps), -h / 2 * (1 + eps), f_out * h / 2, -30 * h]
        if tier == "quick":
            zs = zs[:5]
        # exact special values (case ids of determine_cases): r = r_k, phi = phi_k, phi_k + 180, z = z_k; surface points are filtered later
        rs += [r2] + ([r1] if r1 > 0 else [])
        phs += [p1, p2]
        zs += [h / 2, -h / 2]
        for r in rs:
            for ph in (phs if r > 0 else [0.0]):
                for z in zs:
                    t = np.deg2rad(ph)
                    pts.append((r * np.cos(t), r * np.sin(t), z))
        # on-axis observers (arctan2 gives phi = 0 there): case ids that need phi == limit angle
        for z in zs:
            pts.append((0.0, 0.0, z))
    elif cls in ("Sphere", "Dipole"):
        R = par["diameter"] / 2 if cls == "Sphere" else 1.0
        dirs = [(1, 0, 0), (0, 1, 0), (0, 0, 1), (-1, 0, 0), (0, 0, -1), (0.3, -0.5, 0.8), (-0.6, 0.6, 0.5), (0.7, 0.7, 0.1),
                (np.cos(phase), np.sin(phase), 0.3)]
        rads = [1e-3, f_in, 1 - eps, 1 + eps, f_out, 30.0, 1e3] + ([0.0] if cls == "Sphere" else [])
        for d in dirs:
            d = np.array(d, float) / np.linalg.norm(d)
            for f in rads:
                pts.append(tuple(d * f * R))
    elif cls in ("Tetrahedron", "TriangularMesh", "Triangle"):
        v = np.array(par["vertices"], float)
        faces = np.array(par["faces"]) if "faces" in par else (np.array([(0, 1, 2)]) if len(v) == 3 else np.array(TF))
        cen = v.mean(axis=0)
        s = np.max(np.linalg.norm(v - cen, axis=1))
        pts += [tuple(cen + (0.01 * s, 0.02 * s, -0.015 * s)), tuple(cen + np.array((f_in, -f_in, 0.1)) * 0.3 * s)]
        for f in faces:
            a, b, c = v[f]
            n = np.cross(b - a, c - a)
            n /= np.linalg.norm(n)
            fc = (a + b + c) / 3 + 0.05 * (f_in - 0.3) * (b - a)
            for off in (eps * s, -eps * s, f_in * s, -f_in * 0.3 * s, f_out * s, 30 * s, -1e3 * s):
                pts.append(tuple(fc + n * off))
            e = b - a
            for lam in (1 + f_in, -f_in):
                base = a + lam * e                       # on the extension line of edge ab
                for off in (1e-6 * s, eps * s, 1e-9 * s):  # both sides of the library's `ind > 1e-12` switch
                    pts.append(tuple(base + n * off))
                    pts.append(tuple(base + np.cross(n, e) / np.linalg.norm(e) * off))
                    ext.update(pts[-2:])
            pts.append(tuple((a + b) / 2 + n * eps * s))   # next to an edge
            pts.append(tuple(a + (fc - a) * eps + n * eps * s))   # next to a vertex
            pts.append(tuple(fc + 2.0 * (fc - c) + n * 1e-7 * s))  # (almost) in the face plane, outside the face
            ext.add(pts[-1])
        if tier == "quick":
            pts = pts[:2] + pts[2::2]
    elif cls == "Polyline":
        v = np.array(par["vertices"], float)
        s = np.max(np.linalg.norm(v - v.mean(axis=0), axis=1))
        for a, b in zip(v[:-1], v[1:]):
            d = b - a
            t = np.cross(d, (0.3, 0.5, 0.8))
            t /= np.linalg.norm(t)
            for lam in (-f_in, eps, f_in, 1 - eps, 1 + f_in):   # the three orderings of (p1, p2, p4)
                base = a + lam * d
                for off in (eps * s, f_in * s, f_out * s, 30 * s, 1e3 * s):
                    pts.append(tuple(base + t * off))
            pts.append(tuple(a + (1 + f_in) * d + t * 1e-9 * s))  # (almost) on the extension line
            ext.add(pts[-1])
    else:
        raise AssertionError(cls)
    ext = {tuple(float(u) for u in q) for q in ext}
    seen, out = set(), []
    for q in pts:
        k = tuple(float(u) for u in q)
        if k not in seen:
            seen.add(k)
            out.append(k)
    return np.array(out, float), np.array([k in ext for k in out], bool)


def on_source(cls, par, pts):
    """True where the observer lies on the source's surface / wire / sheet (excluded by the property)"""
    p = np.array(pts, float)
    if cls in MAGNETS:
        return geo.classify(cls, par, p) == 0
    if cls == "Circle":
        r0 = par["diameter"] / 2
        return np.hypot(np.hypot(p[:, 0], p[:, 1]) - r0, p[:, 2]) < 1e-9 * r0
    if cls == "Polyline":
        v = np.array(par["vertices"], float)
        s = np.max(np.linalg.norm(v - v.mean(axis=0), axis=1))
        dmin = np.full(len(p), np.inf)
        for a, b in zip(v[:-1], v[1:]):
            d = b - a
            t = np.clip(((p - a) @ d) / (d @ d), 0, 1)
            dmin = np.minimum(dmin, np.linalg.norm(p - (a + t[:, None] * d), axis=1))
        return dmin < 1e-9 * s
    if cls == "Triangle":
        a, b, c = np.array(par["vertices"], float)
        n = np.cross(b - a, c - a)
        s = np.sqrt(np.linalg.norm(n))
        n /= np.linalg.norm(n)
        dist = np.abs((p - a) @ n)
        # barycentric test of the projection
        q = p - np.outer((p - a) @ n, n)
        m = np.array([b - a, c - a]).T
        uv = np.linalg.lstsq(m, (q - a).T, rcond=None)[0].T
        inside = (uv[:, 0] >= -1e-9) & (uv[:, 1] >= -1e-9) & (uv.sum(1) <= 1 + 1e-9)
        return (dist < 1e-9 * s) & inside
    return np.linalg.norm(p, axis=1) == 0  # Dipole position


ALL_CASE_IDS = [112, 113, 115, 122, 123, 124, 125, 132, 133, 134, 135, 211, 212, 213, 214, 215, 221, 222, 223, 224, 225, 231, 232, 233,
                234, 235]


def wire_distance(cls, par, pts):
    p = np.array(pts, float)
    if cls == "Circle":
        return np.hypot(np.hypot(p[:, 0], p[:, 1]) - par["diameter"] / 2, p[:, 2])
    v = np.array(par["vertices"], float)
    dmin = np.full(len(p), np.inf)
    for a, b in zip(v[:-1], v[1:]):
        d = b - a
        t = np.clip(((p - a) @ d) / (d @ d), 0, 1)
        dmin = np.minimum(dmin, np.linalg.norm(p - (a + t[:, None] * d), axis=1))
    return dmin


# ------------------------------------------------------------------ references
def patches_for(cls, par):
    if cls == "Cuboid":
        return Q.cuboid_patches(par["dimension"])
    if cls == "Cylinder":
        d, h = par["dimension"]
        return Q.cylseg_patches(0.0, d / 2, h, 0.0, 2 * np.pi)
    if cls == "CylinderSegment":
        r1, r2, h, p1, p2 = par["dimension"]
        return Q.cylseg_patches(r1, r2, h, np.deg2rad(p1), np.deg2rad(p2))
    if cls == "Sphere":
        return Q.sphere_patches(par["diameter"] / 2)
    if cls in ("Tetrahedron", "TriangularMesh"):
        return Q.mesh_patches(par["vertices"], par.get("faces", TF))
    if cls == "Triangle":
        a, b, c = par["vertices"]
        return [Q.tri_patch(a, b, c, 1)]
    raise AssertionError(cls)


def reference(task):
    """returns (kind, payload, err): tensor for magnets / Triangle, H per unit current for currents"""
    cls, ri, obs = task
    par = REGIMES[cls][ri]
    try:
        if cls in MAGNETS:
            c0 = np.array(par["vertices"], float).mean(axis=0) if "vertices" in par else 0.0
            if np.linalg.norm(np.array(obs) - c0) > 4.0 * geo.size_of(cls, par):
                K, e = Q.volume_tensor(obs, cls, par)   # far field: dipole-density volume integral, no cancellation
                return ("tensor", K, e)
        if cls in MAGNETS or cls == "Triangle":
            T, e = Q.surface_tensor(obs, patches_for(cls, par), rtol=1e-11, budget_s=25.0)
            return ("tensor", T, e)
        if cls == "Circle":
            c, lim = Q.circle_curve(par["diameter"] / 2)
            H, e = Q.H_curve(obs, c, lim, 1.0)
            return ("H1", H, e)
        if cls == "Polyline":
            v = par["vertices"]
            H, E = np.zeros(3), 0.0
            for a, b in zip(v[:-1], v[1:]):
                c, lim = Q.segment_curve(a, b)
                h, e = Q.H_curve(obs, c, lim, 1.0)
                H += h
                E += e
            return ("H1", H, E)
        if cls == "Dipole":
            return ("dipole", None, 0.0)
    except Q.Inconclusive as ex:
        return ("inconclusive", str(ex), None)
    raise AssertionError(cls)


_QHASH = None


def cache_path(cls):
    """reference cache, keyed by exact input and by the hash of the oracle's source (depends on /verif only, never on /repo)"""
    global _QHASH
    if _QHASH is None:
        import hashlib

        with open(Q.__file__, "rb") as f:
            _QHASH = hashlib.sha1(f.read()).hexdigest()[:10]
    return os.path.join(common.VERIF, "refcache", f"C01_{cls}_{_QHASH}.pkl")


def load_cache(cls):
    p = cache_path(cls)
    if os.path.exists(p):
        try:
            with open(p, "rb") as f:
                return pickle.load(f)
        except Exception:
            return {}
    return {}


def save_cache(cls, d):
    os.makedirs(os.path.dirname(cache_path(cls)), exist_ok=True)
    tmp = cache_path(cls) + f".{os.getpid()}.tmp"
    with open(tmp, "wb") as f:
        pickle.dump(d, f)
    os.replace(tmp, cache_path(cls))


def make(cls, par, exc, pose):
    import magpylib as magpy
    from scipy.spatial.transform import Rotation as R

    kw = dict(position=pose[0], orientation=R.from_rotvec(pose[1]))
    C = {"Cuboid": magpy.magnet.Cuboid, "Cylinder": magpy.magnet.Cylinder, "CylinderSegment": magpy.magnet.CylinderSegment,
         "Sphere": magpy.magnet.Sphere, "Tetrahedron": magpy.magnet.Tetrahedron, "TriangularMesh": magpy.magnet.TriangularMesh,
         "Triangle": magpy.misc.Triangle, "Circle": magpy.current.Circle, "Polyline": magpy.current.Polyline,
         "Dipole": magpy.misc.Dipole}[cls]
    if cls in ("Circle", "Polyline"):
        return C(current=exc[0] * 3 + 1.7, **par, **kw)
    if cls == "Dipole":
        return C(moment=exc, **kw)
    if cls == "TriangularMesh":
        return C(polarization=exc, check_open="ignore", check_disconnected="ignore", check_selfintersecting="ignore",
                 reorient_faces="ignore", **par, **kw)
    return C(polarization=exc, **par, **kw)


def companion_par(cls, par):
    """another body of the same class (same vertex / face count, x-extent stretched, y/z coordinates shared) that is
    evaluated in the SAME call: the field of a source must not depend on what else is in the batch"""
    if cls == "Dipole":
        return par
    out = {}
    for k, v in par.items():
        if k == "faces":
            out[k] = v
        elif k == "vertices":
            out[k] = (np.array(v, float) * np.array((1.3, 1.0, 1.0))).tolist()
        elif k == "dimension" and cls == "CylinderSegment":
            d = np.array(v, float)
            out[k] = (d[0], d[1] * 1.3, d[2], d[3], d[4])
        elif k == "dimension":
            d = np.array(v, float)
            d[0] *= 1.3
            out[k] = tuple(d)
        else:
            out[k] = v * 1.3
    return out


def evaluate(cls, ri, local, refs, tier, ext=None):
    """library vs reference for all excitations, poses, fields at the given local observers"""
    import magpylib as magpy
    from scipy.spatial.transform import Rotation as R

    mu0 = magpy.mu_0
    par = REGIMES[cls][ri]
    size = geo.size_of(cls, par) if cls != "Dipole" else 1.0
    inside = (geo.classify(cls, par, local) == 1) if cls in MAGNETS else np.zeros(len(local), bool)
    dist = np.linalg.norm(local - (np.array(par["vertices"], float).mean(axis=0) if "vertices" in par else 0), axis=1) / size
    dwire = wire_distance(cls, par, local) if cls in ("Circle", "Polyline") else None
    out = []
    ok_idx = [i for i, r in enumerate(refs) if r[0] != "inconclusive"]
    if not ok_idx:
        return out, 0
    n_eval = 0
    for ei, exc in enumerate(EXC if cls not in ("Circle", "Polyline") else EXC[:2]):
        J = np.array(exc, float)
        Href = np.zeros((len(local), 3))
        Eref = np.zeros(len(local))
        for i in ok_idx:
            kind, payload, e = refs[i]
            if kind == "tensor":
                Href[i] = Q.H_magnet(payload, J)
                Eref[i] = e * np.linalg.norm(J) / (4 * np.pi * mu0)
            elif kind == "H1":
                cur = J[0] * 3 + 1.7
                Href[i] = payload * cur
                Eref[i] = e * abs(cur)
            else:
                Href[i] = Q.H_dipole(local[i], J)
        Bref = mu0 * Href + (np.outer(inside, J) if cls in MAGNETS else 0)
        # natural magnitude of H at the observer (used only as a floor, x1e-3, where the field vanishes by symmetry)
        if cls in ("Circle", "Polyline"):
            nat = abs(J[0] * 3 + 1.7) / (4 * np.pi * np.maximum(dwire, 1e-300)) * np.minimum(1.0, (1.0 / np.maximum(dist, 1e-300)))
        elif cls == "Dipole":
            nat = np.linalg.norm(J) / (4 * np.pi * np.maximum(dist, 1e-300) ** 3)
        else:
            nat = np.linalg.norm(J) / mu0 * np.minimum(1.0, 1.0 / np.maximum(dist, 1e-300) ** 3)
        for pi, pose in enumerate(POSES if tier == "thorough" else POSES[:2]):
            Rm = R.from_rotvec(pose[1])
            obs = Rm.apply(local) + np.array(pose[0])
            src = make(cls, par, exc, pose)
            for field, ref, eref in (("B", Bref, mu0 * Eref), ("H", Href, Eref)):
                try:
                    with common.time_limit(120):
                        got = np.asarray(getattr(src, "get" + field)(obs)).reshape(-1, 3)
                except Exception as ex:
                    out.append(("raised", f"get{field} raised {type(ex).__name__}: {ex}"[:160], None, ei, pi, field))
                    continue
                got = Rm.inv().apply(got)
                n_eval += len(ok_idx)
                forms = [("", got)]
                if ei == 0 and pi <= 1:
                    # the same source evaluated in one call together with a companion body of its class, in both orders
                    try:
                        comp = make(cls, companion_par(cls, par), EXC[1] if cls != "Dipole" else (0.1, 0.2, 0.3), pose)
                        fn = getattr(magpy, "get" + field)
                        with common.time_limit(120):
                            g1 = np.asarray(fn([comp, src], obs)).reshape(2, -1, 3)[1]
                            g2 = np.asarray(fn([src, comp], obs)).reshape(2, -1, 3)[0]
                        forms += [("batched-second", Rm.inv().apply(g1)), ("batched-first", Rm.inv().apply(g2))]
                        n_eval += 2 * len(ok_idx)
                    except Exception as ex:
                        out.append(("raised", f"batched get{field} raised {type(ex).__name__}: {ex}"[:160], None, ei, pi, field))
                plain_ok = set()
                for form, got in forms:
                  for i in ok_idx:
                      if form and i not in plain_ok:
                          continue   # batched forms are judged only where the source alone is right (else: the finding above)
                      is_ext = ext is not None and ext[i]
                      sc = max(np.linalg.norm(ref[i]), (1.0 if is_ext else 1e-3) * nat[i] * (mu0 if field == "B" else 1.0), 1e-300)
                      err = np.linalg.norm(got[i] - ref[i])
                      tol = min(1e-3, (max(TOL[cls], TOL_EXT_CLS.get(cls, TOL_EXT)) if is_ext else TOL[cls]) + FAR_GROWTH.get(cls, 0.0) * max(dist[i], 1.0) ** 3)
                      if not np.all(np.isfinite(got[i])):
                          out.append(("nonfinite" + ("-" + form if form else ""), f"{got[i].tolist()}", i, ei, pi, field))
                      elif eref[i] > 0.1 * tol * sc:
                          out.append(("oracle_inconclusive", f"ref error bound {eref[i]:.3g} vs tol*scale {tol * sc:.3g}", i, ei, pi, field))
                      elif err > tol * sc + 10 * eref[i]:
                          out.append(("differs" + ("-" + form if form else ""), f"|lib-ref|/|ref|={err / sc:.3g} tol={tol:.3g} lib={got[i].tolist()} ref={ref[i].tolist()}", i, ei, pi, field))
                      else:
                          out.append(("ok", (err / sc, tol), i, ei, pi, field))
                          if not form:
                              plain_ok.add(i)
    return out, n_eval


def cell_label(cls, par, p):
    size = geo.size_of(cls, par) if cls != "Dipole" else 1.0
    c0 = np.array(par["vertices"], float).mean(axis=0) if "vertices" in par else 0
    d = np.linalg.norm(np.array(p) - c0) / size
    where = "far" if d > 10 else ("mid" if d > 1.5 else "near")
    if cls in ("Cylinder", "CylinderSegment", "Circle") and np.hypot(p[0], p[1]) < 1e-2 * size:
        where = "axis-" + where    # "close to the z-axis in cylindrical symmetries" (a zone the documentation names)
    if cls in MAGNETS:
        where += "-inside" if geo.classify(cls, par, [p])[0] == 1 else "-outside"
    return where


def work_class(args):
    cls, ri, tier, seed = args
    return None


def run(tier, seed):
    import magpylib as magpy

    common.bind_repo()
    Q.set_mu0(magpy.mu_0)
    t0 = time.time()
    tasks = []
    per = {}
    ext_of = {}
    for cls, regs in REGIMES.items():
        for ri, par in enumerate(regs):
            if tier == "quick" and ri >= {"CylinderSegment": 7, "TriangularMesh": 2, "Polyline": 2}.get(cls, 2):
                continue
            loc, ext = cells(cls, par if cls != "Dipole" else {}, tier, seed)
            keep = ~on_source(cls, par, loc)
            loc, ext = loc[keep], ext[keep]
            per[(cls, ri)] = loc
            ext_of[(cls, ri)] = ext
            for p in loc:
                tasks.append((cls, ri, tuple(float(x) for x in p)))
    # references (cached by exact input; depends only on /verif code and the input, never on /repo)
    caches = {cls: load_cache(cls) for cls in REGIMES}
    todo = [t for t in tasks if (t[1], t[2]) not in caches[t[0]]]
    # cache audit: a deterministic ~3% of the cached references is recomputed on every run and must agree
    import zlib

    audit = [t for t in tasks if (t[1], t[2]) in caches[t[0]] and zlib.crc32(repr(t).encode()) % 32 == (seed * 7 + 3) % 32]
    res_a = common.pmap(reference, audit, chunk=6) if audit else []
    audit_bad = 0
    for t, r in zip(audit, res_a):
        c = caches[t[0]][(t[1], t[2])]
        if "inconclusive" in (r[0], c[0]):
            continue    # the recomputation ran out of its time budget (loaded machine): nothing to compare
        if r[0] != c[0] or (r[0] in ("tensor", "H1") and not np.allclose(r[1], c[1], rtol=1e-9, atol=0)):
            audit_bad += 1
    res = common.pmap(reference, todo, chunk=6) if todo else []
    dirty = set()
    for t, r in zip(todo, res):
        caches[t[0]][(t[1], t[2])] = r
        dirty.add(t[0])
    for cls in dirty:
        save_cache(cls, caches[cls])
    t_ref = time.time() - t0
    viols, harness = [], []
    n_eval = n_inc = 0
    worst = {}
    worst_raw = {}
    from mc import branches

    coll = branches.Collector()
    for (cls, ri), loc in per.items():
        refs = [caches[cls][(ri, tuple(float(x) for x in p))] for p in loc]
        n_inc += sum(1 for r in refs if r[0] == "inconclusive")
        with coll:
            outs, ne = evaluate(cls, ri, loc, refs, tier, ext_of[(cls, ri)])
        n_eval += ne
        par = REGIMES[cls][ri]
        for kind, detail, i, ei, pi, field in outs:
            if kind == "ok":
                lab0 = cell_label(cls, par, loc[i])
                worst[cls] = max(worst.get(cls, 0.0), float(detail[0] / detail[1]))
                wk = f"{cls}|{lab0}"
                worst_raw[wk] = max(worst_raw.get(wk, 0.0), float(detail[0]))
                continue
            if kind == "oracle_inconclusive":
                n_inc += 1
                continue
            lab = cell_label(cls, par, loc[i]) if i is not None else "call"
            viols.append({"key": f"C01|{cls}|regime={ri}|{lab}|{kind}",
                          "what": f"{cls} regime {ri} {par} local observer {None if i is None else loc[i].tolist()} exc={EXC[ei]} pose={pi} {field}: {detail}",
                          "case": {"cls": cls, "regime": ri, "obs": None if i is None else loc[i].tolist(), "exc": ei, "pose": pi, "field": field, "tier": tier, "seed": seed},
                          "observed": [kind, str(detail)]})
    ncells = sum(len(v) for v in per.values())
    cov = {
        "evaluations": n_eval, "distinct_nontrivial": ncells,
        "rule": "one evaluation = one (observer, excitation, pose, field) comparison with the quadrature reference; distinct "
                "non-trivial = distinct (class, regime, local observer cell) each with its own reference integral",
        "samples": [{"cls": t[0], "regime": t[1], "local_observer": list(t[2])} for t in (tasks[0], tasks[len(tasks) // 2], tasks[-1])],
        "exhaustive": True, "seed_set": seed % 4,
        "reference_integrals_computed": len(todo), "reference_integrals_cached": len(tasks) - len(todo),
        "oracle_inconclusive": n_inc, "reference_wall_s": round(t_ref, 1),
        "worst_err_over_tol_per_class": {k: round(v, 4) for k, v in worst.items()},
        "cells_per_class": {f"{k[0]}#{k[1]}": len(v) for k, v in per.items()},
        "worst_rel_err_per_class_cell": {k: float(f"{v:.3g}") for k, v in sorted(worst_raw.items())},
        "tolerances": TOL,
    }
    cov.update(coll.report())
    cov["reference_cache_audited"] = len(audit)
    cov["reference_cache_audit_mismatches"] = audit_bad
    if audit_bad:
        harness.append(f"reference cache audit: {audit_bad} of {len(audit)} recomputed references differ from the cache")
    missing_ids = sorted(set(ALL_CASE_IDS) - coll.case_ids)
    cov["cylinder_segment_case_ids_missing"] = missing_ids
    if missing_ids:
        harness.append(f"vacuous: CylinderSegment case ids not reached: {missing_ids}")
    if n_inc > 0.05 * max(n_eval, 1):
        harness.append(f"too many inconclusive references: {n_inc}")
    return {"coverage": cov, "violations": viols, "harness_errors": harness,
            "assumptions": ["reference = adaptive Gauss-Legendre quadrature of the first-principles integrals with its own error "
                            "bound; cases whose bound is not 10x below the tolerance are counted as oracle_inconclusive",
                            "observers within 1e-9 (relative) of a surface / wire are excluded as 'on the source'"]}


def replay(case):
    """re-evaluates the whole (class, regime) cell set of the recorded tier / seed - the batch context is part of the
    case because some defects only show in vectorised calls - and reports the recorded cell"""
    import magpylib as magpy

    Q.set_mu0(magpy.mu_0)
    cls, ri = case["cls"], case["regime"]
    if case["obs"] is None:
        return {"violated": True, "observed": "call raised"}
    tier, seed = case.get("tier", "thorough"), case.get("seed", 0)
    par = REGIMES[cls][ri]
    loc, ext = cells(cls, par if cls != "Dipole" else {}, tier, seed)
    keep = ~on_source(cls, par, loc)
    loc, ext = loc[keep], ext[keep]
    cache = load_cache(cls)
    refs = []
    for p in loc:
        k = (ri, tuple(float(x) for x in p))
        refs.append(cache[k] if k in cache else reference((cls, ri, k[1])))
    outs, _ = evaluate(cls, ri, loc, refs, tier, ext)
    target = np.array(case["obs"], float)
    idx = [i for i, p in enumerate(loc) if np.array_equal(p, target)]
    bad = [o for o in outs if o[0].split("-")[0] in ("differs", "nonfinite", "raised") and (o[2] is None or o[2] in idx)
           and o[3] == case["exc"] and o[4] == case["pose"] and o[5] == case["field"]]
    return {"violated": bool(bad), "observed": [[b[0], str(b[1])] for b in bad][:4]}
