"""C02 - B = mu0*H + J everywhere; J and M report the body's polarization.

Grid explorer: class x geometry regime x observer cells (incl. the exact surface sets: faces, edges,
corners, rim, cut planes, sphere surface and their nextafter neighbours) x pose x in_out x 4 fields.
No reference field is needed: the four outputs must satisfy B - mu0*H - J = 0 and J = mu0*M with the
exported magpylib.mu_0, J must equal R*polarization strictly inside and 0 strictly outside (exact
geometric predicate in the local frame), J = 0 for currents, dipoles and triangle sheets; the
polarization / magnetization attributes must obey the same relation through every assignment form.
"""
import numpy as np

from mc import common
from mc.oracles import geometry as geo

LEVEL = "exploration"
REL = 1e-12

TV = [(-0.5, -0.4, -0.3), (0.9, -0.3, -0.4), (-0.2, 0.8, -0.3), (0.0, 0.0, 0.9)]
CUBE_V = [(x * 0.5, y * 0.6, z * 0.4) for x in (-1, 1) for y in (-1, 1) for z in (-1, 1)]
CUBE_F = [(0, 1, 3), (0, 3, 2), (4, 6, 7), (4, 7, 5), (0, 4, 5), (0, 5, 1), (2, 3, 7), (2, 7, 6), (0, 2, 6), (0, 6, 4),
          (1, 5, 7), (1, 7, 3)]
REGIMES = {
    "Cuboid": [{"dimension": (1.0, 1.2, 0.8)}, {"dimension": (2.0, 0.1, 1.0)}, {"dimension": (0.2, 0.2, 3.0)}],
    "Cylinder": [{"dimension": (1.0, 1.2)}, {"dimension": (2.0, 0.1)}, {"dimension": (0.3, 3.0)}],
    "CylinderSegment": [{"dimension": (0.3, 0.9, 1.1, -30, 200)}, {"dimension": (0.0, 0.8, 1.0, 20, 110)},
                        {"dimension": (0.4, 1.0, 0.6, 0, 360)}, {"dimension": (0.0, 1.0, 1.0, -180, 180)},
                        {"dimension": (0.2, 0.5, 1.0, -270, -100)}],
    "Sphere": [{"diameter": 1.1}],
    "Tetrahedron": [{"vertices": TV}, {"vertices": [TV[0], TV[2], TV[1], TV[3]]}],   # both chiralities
    "TriangularMesh": [{"vertices": TV, "faces": [(0, 2, 1), (0, 1, 3), (0, 3, 2), (1, 2, 3)]}, {"vertices": CUBE_V, "faces": CUBE_F}],
    "Triangle": [{"vertices": TV[:3]}],
    "Circle": [{"diameter": 1.3}],
    "Polyline": [{"vertices": [(0, 0, 0), (1, 1, 0.5), (1, 2, -0.4)]}],
    "Dipole": [{}],
}
MAGNETS = ["Cuboid", "Cylinder", "CylinderSegment", "Sphere", "Tetrahedron", "TriangularMesh"]
POLS = [(0.2, -0.3, 0.9), (0.0, 0.0, 1.0), (1.0, 0.0, 0.0)]


def make(cls, par, pol, pose):
    import magpylib as magpy
    from scipy.spatial.transform import Rotation as R

    pos, rv = pose
    kw = dict(position=pos, orientation=R.from_rotvec(rv))
    C = {"Cuboid": magpy.magnet.Cuboid, "Cylinder": magpy.magnet.Cylinder, "CylinderSegment": magpy.magnet.CylinderSegment,
         "Sphere": magpy.magnet.Sphere, "Tetrahedron": magpy.magnet.Tetrahedron, "TriangularMesh": magpy.magnet.TriangularMesh,
         "Triangle": magpy.misc.Triangle, "Circle": magpy.current.Circle, "Polyline": magpy.current.Polyline,
         "Dipole": magpy.misc.Dipole}[cls]
    if cls in ("Circle", "Polyline"):
        return C(current=2.5, **par, **kw)
    if cls == "Dipole":
        return C(moment=pol, **kw)
    return C(polarization=pol, **par, **kw)


POSES = [((0.0, 0.0, 0.0), (0.0, 0.0, 0.0)), ((0.3, -0.2, 0.5), (0.4, -0.3, 0.8)), ((-1.0, 2.0, 0.1), (0.0, 0.0, np.pi / 2))]


def run_case(c):
    import magpylib as magpy
    from scipy.spatial.transform import Rotation as R

    cls, par, pol, pose, in_out = c["cls"], REGIMES[c["cls"]][c["regime"]], POLS[c["pol"]], POSES[c["pose"]], c["in_out"]
    src = make(cls, par, pol, pose)
    local = geo.cells(cls if cls != "Dipole" else "Dipole", par if cls != "Dipole" else {}, "full")
    if cls in MAGNETS:
        cl = geo.classify(cls, par, local)
    else:
        cl = -np.ones(len(local), int)
    if in_out == "inside":
        local, cl = local[cl == 1], cl[cl == 1]
    elif in_out == "outside":
        local, cl = local[cl == -1], cl[cl == -1]
    if len(local) == 0:
        return {"rows": 0, "problems": []}
    Rm = R.from_rotvec(pose[1])
    obs = Rm.apply(local) + np.array(pose[0])
    kw = {"in_out": in_out} if cls in MAGNETS else {}
    mu0 = magpy.mu_0
    out = {}
    for f in "BHJM":
        try:
            with common.time_limit(60):
                out[f] = np.asarray(getattr(src, "get" + f)(obs, **kw)).reshape(-1, 3)
        except Exception as e:
            return {"rows": len(local), "problems": [("raised", f"get{f} raised {type(e).__name__}: {e}"[:160], None)]}
    B, H, J, M = out["B"], out["H"], out["J"], out["M"]
    problems = []
    # the special rows again WITHOUT the ordinary ones (a call in which every row takes a special-case branch), and singly
    special = np.where(cl == 0)[0]
    if len(special) and in_out == "auto":
        try:
            sub = {f: np.asarray(getattr(src, "get" + f)(obs[special], **kw)).reshape(-1, 3) for f in "BHJM"}
            pick = special[np.unique(np.linspace(0, len(special) - 1, 60).astype(int))]   # spread over faces, edges, corners, rims
            one = {f: np.array([np.asarray(getattr(src, "get" + f)(obs[i], **kw)).reshape(3) for i in pick]) for f in "BHJM"}
        except Exception as e:
            return {"rows": len(local), "problems": [("raised", f"special rows alone raised {type(e).__name__}: {e}"[:160], None)]}
        for tag, d, idx in (("special-rows-alone", sub, special), ("single-special-row", one, pick)):
            r_ = np.linalg.norm(d["B"] - mu0 * d["H"] - d["J"], axis=1)
            s_ = np.maximum.reduce([np.linalg.norm(d["B"], axis=1), mu0 * np.linalg.norm(d["H"], axis=1), np.linalg.norm(d["J"], axis=1)])
            f_ = np.isfinite(d["B"]).all(1) & np.isfinite(d["H"]).all(1) & np.isfinite(d["J"]).all(1)
            b_ = f_ & (r_ > REL * np.maximum(s_, 1e-300))
            for k in np.where(b_)[0][:2]:
                problems.append((f"B-mu0H-J|on-surface|{tag}", f"|B-mu0H-J|={r_[k]:.3g} scale={s_[k]:.3g} B={d['B'][k].tolist()} muH={(mu0 * d['H'][k]).tolist()} J={d['J'][k].tolist()}",
                                 local[idx[k]].tolist()))
            # and the values must not depend on the company of the call (identity pose only: with a rotation the observer
            # coordinates are rounded differently in calls of different size, which may legitimately flip an on-surface decision)
            for f in ("BHJ" if c["pose"] == 0 else ""):
                full = out[f][idx]
                ok_ = np.isfinite(full).all(1) & np.isfinite(d[f]).all(1)
                dev = np.linalg.norm(full - d[f], axis=1)
                sc_ = np.maximum(np.linalg.norm(full, axis=1), 1e-300)
                w = ok_ & (dev > 1e-9 * sc_) & (dev > 1e-300)
                if w.any():
                    k = int(np.argmax(w))
                    problems.append((f"{f}-depends-on-other-rows|{tag}", f"{d[f][k].tolist()} vs {full[k].tolist()} in the full call", local[idx[k]].tolist()))
                    break
    fin = np.isfinite(B).all(1) & np.isfinite(H).all(1) & np.isfinite(J).all(1) & np.isfinite(M).all(1)
    # 1. B = mu0 H + J
    res = np.linalg.norm(B - mu0 * H - J, axis=1)
    sc = np.maximum.reduce([np.linalg.norm(B, axis=1), mu0 * np.linalg.norm(H, axis=1), np.linalg.norm(J, axis=1)])
    bad = fin & (res > REL * np.maximum(sc, 1e-300))
    for i in np.where(bad)[0][:3]:
        where = {1: "inside", 0: "on-surface", -1: "outside"}[int(cl[i])]
        problems.append((f"B-mu0H-J|{where}", f"|B-mu0H-J|={res[i]:.3g} scale={sc[i]:.3g} B={B[i].tolist()} muH={(mu0*H[i]).tolist()} J={J[i].tolist()}", local[i].tolist()))
    # 2. J = mu0 M
    res2 = np.linalg.norm(J - mu0 * M, axis=1)
    bad2 = fin & (res2 > 1e-15 * np.maximum(np.linalg.norm(J, axis=1), 1e-300))
    for i in np.where(bad2)[0][:2]:
        problems.append(("J-mu0M", f"|J-mu0*M|/|J|={res2[i]/max(np.linalg.norm(J[i]),1e-300):.3g}", local[i].tolist()))
    # 3. J reports the polarization inside, 0 outside
    if cls in MAGNETS:
        Jexp = Rm.apply(np.array(pol, float))
        ins, outs = cl == 1, cl == -1
        badi = ins & (np.linalg.norm(J - Jexp, axis=1) > 1e-14 * np.linalg.norm(Jexp))
        bado = outs & (np.linalg.norm(J, axis=1) > 0)
        if in_out == "auto":
            for i in np.where(badi)[0][:3]:
                problems.append(("J-not-polarization-inside", f"J={J[i].tolist()} expected {Jexp.tolist()}", local[i].tolist()))
            for i in np.where(bado)[0][:3]:
                problems.append(("J-nonzero-outside", f"J={J[i].tolist()}", local[i].tolist()))
        else:
            want = Jexp if in_out == "inside" else np.zeros(3)
            badf = np.linalg.norm(J - want, axis=1) > 1e-14 * max(np.linalg.norm(Jexp), 1e-300)
            for i in np.where(badf)[0][:3]:
                problems.append((f"J-wrong-with-in_out={in_out}", f"J={J[i].tolist()}", local[i].tolist()))
    else:
        if np.any(J != 0) or np.any(M != 0):
            problems.append(("J-nonzero-for-non-magnet", "J or M not identically zero", None))
    return {"rows": len(local), "problems": problems, "n_surface": int(np.sum(cl == 0)), "n_inside": int(np.sum(cl == 1)),
            "n_nonfinite": int(np.sum(~fin))}


def run_attr(c):
    import magpylib as magpy

    cls, val, form = c["cls"], c["value"], c["form"]
    par = REGIMES[cls][0]
    mu0 = magpy.mu_0
    v = np.array(val, float)
    C = {"Cuboid": magpy.magnet.Cuboid, "Cylinder": magpy.magnet.Cylinder, "CylinderSegment": magpy.magnet.CylinderSegment,
         "Sphere": magpy.magnet.Sphere, "Tetrahedron": magpy.magnet.Tetrahedron, "TriangularMesh": magpy.magnet.TriangularMesh,
         "Triangle": magpy.misc.Triangle}[cls]
    try:
        if form == "ctor_pol":
            o = C(polarization=v, **par)
            expJ = v
        elif form == "ctor_mag":
            o = C(magnetization=v / mu0, **par)
            expJ = None
        elif form == "set_pol":
            o = C(**par)
            o.polarization = v
            expJ = v
        elif form == "set_mag":
            o = C(**par)
            o.magnetization = v / mu0
            expJ = None
        elif form == "J_M_J":
            o = C(polarization=(9, 9, 9), **par)
            o.magnetization = (1e5, 2e5, 3e5)
            o.polarization = v
            expJ = v
        elif form in ("set_mag_warning_as_error", "set_pol_warning_as_error"):
            # a warning escalated to an error must not leave the two attributes out of sync
            import warnings

            o = C(polarization=(0.5, 0.5, 0.5), **par)
            small = v / max(np.linalg.norm(v), 1e-300) * 100.0  # |M| = 100 A/m < 2000 triggers the low-magnetization warning
            with warnings.catch_warnings():
                warnings.simplefilter("error")
                try:
                    if form.startswith("set_mag"):
                        o.magnetization = small
                    else:
                        o.polarization = small * mu0
                except Warning:
                    pass
            expJ = None
        elif form in ("ctor_pol_mutate_input", "set_pol_mutate_input", "ctor_mag_mutate_input", "set_mag_mutate_input"):
            # the caller keeps using (and changing) the array it passed in: the object must not follow
            a = (v if "pol" in form else v / mu0).astype(float).copy()
            if form.startswith("ctor"):
                o = C(**{"polarization" if "pol" in form else "magnetization": a}, **par)
            else:
                o = C(**par)
                setattr(o, "polarization" if "pol" in form else "magnetization", a)
            a *= 2.0
            a += 1.0
            expJ = v if "pol" in form else None
        elif form in ("imul_pol", "imul_mag", "iadd_pol", "iadd_mag", "edit_then_assign_pol", "edit_then_assign_mag"):
            # augmented assignment / editing the array a getter returned and assigning it back: the setter sees a value that may
            # already be the stored one - both attributes must follow
            o = C(polarization=v, **par)
            a = "polarization" if form.endswith("pol") else "magnetization"
            old = np.array(getattr(o, a), float)
            if form.startswith("imul"):
                if a == "polarization":
                    o.polarization *= 2.0
                else:
                    o.magnetization *= 2.0
                new = old * 2.0
            elif form.startswith("iadd"):
                step = np.array((0.1, -0.2, 0.3)) * (1.0 if a == "polarization" else 1.0 / mu0)
                if a == "polarization":
                    o.polarization += step
                else:
                    o.magnetization += step
                new = old + step
            else:
                arr = getattr(o, a)
                arr[2] = arr[2] * 3.0 + (0.25 if a == "polarization" else 0.25 / mu0)
                setattr(o, a, arr)
                new = old.copy()
                new[2] = old[2] * 3.0 + (0.25 if a == "polarization" else 0.25 / mu0)
            expJ = new if a == "polarization" else None
            got_a = np.array(getattr(o, a), float)
            if not np.allclose(got_a, new, rtol=1e-14, atol=0):
                return [("in-place-edit-lost", f"{form}: {a} reads {got_a.tolist()} expected {new.tolist()}")]
        elif form == "M_J_M":
            o = C(magnetization=(1e5, 2e5, 3e5), **par)
            o.polarization = (0.5, 0.5, 0.5)
            o.magnetization = v / mu0
            expJ = None
    except Exception as e:
        return [("raised", f"{form} raised {type(e).__name__}: {e}"[:160])]
    J, M = np.array(o.polarization, float), np.array(o.magnetization, float)
    problems = []
    sc = max(np.linalg.norm(J), np.linalg.norm(mu0 * M), 1e-300)
    rel = np.linalg.norm(J - mu0 * M) / sc
    if rel > 1e-9:
        problems.append(("polarization-and-magnetization-out-of-sync", f"|pol - mu_0*mag|/|pol| = {rel:.3g} (pol={J.tolist()}, mag={M.tolist()})"))
    elif rel > 1e-15:
        problems.append(("polarization!=mu_0*magnetization", f"|pol - mu_0*mag|/|pol| = {rel:.3g} (pol={J.tolist()}, mag={M.tolist()})"))
    if expJ is not None and not np.array_equal(J, expJ):
        problems.append(("polarization-readback", f"{J.tolist()} != {expJ.tolist()}"))
    if cls != "Triangle" and np.linalg.norm(v) > 0 and not form.endswith("as_error"):
        p_in = {"Cuboid": (0.01, 0.02, 0.03), "Cylinder": (0.01, 0.02, 0.03), "CylinderSegment": (0.5, 0.3, 0.1), "Sphere": (0.01, 0.02, 0.03),
                "Tetrahedron": (0.05, 0.02, 0.0), "TriangularMesh": (0.05, 0.02, 0.0)}[cls]
        gJ, gM = o.getJ(p_in), o.getM(p_in)
        if np.linalg.norm(gJ - J) > 1e-15 * np.linalg.norm(J):
            problems.append(("getJ!=polarization", f"{gJ.tolist()} vs {J.tolist()}"))
        if np.linalg.norm(gM - M) > 1e-15 * np.linalg.norm(M):
            problems.append(("getM!=magnetization", f"|getM-mag|/|mag|={np.linalg.norm(gM - M)/np.linalg.norm(M):.3g}"))
    return problems


# ------------------------------------------------------------------ several bodies in one call
BATCH_KINDS = ["meshA", "meshB", "meshA2", "cub", "ring", "tet", "meshT", "tetS"]
IN_OUT_KINDS = ("meshA", "meshB", "meshA2", "meshT", "tet", "tetS")   # classes whose field function takes the in_out argument


def mk_batch_body(kind, slot):
    """disjoint bodies: slot k is centred at (3k, 0.2k, -0.1k); returns (source, local inside point, pol)"""
    import magpylib as magpy
    from scipy.spatial.transform import Rotation as R

    pos = np.array((3.0 * slot, 0.2 * slot, -0.1 * slot))
    ori = R.from_rotvec((0.1 * slot, -0.2, 0.15 * slot))
    pol = (0.2 + 0.1 * slot, -0.3, 0.9 - 0.2 * slot)
    cube = np.array(CUBE_V)
    if kind == "meshA":
        o = magpy.magnet.TriangularMesh(vertices=cube, faces=CUBE_F, polarization=pol, position=pos, orientation=ori)
    elif kind == "meshA2":  # the same local mesh as meshA (a translated copy of the body)
        o = magpy.magnet.TriangularMesh(vertices=cube.copy(), faces=CUBE_F, polarization=pol, position=pos, orientation=ori)
    elif kind == "meshB":   # same face count, other geometry, shares some coordinates with meshA
        o = magpy.magnet.TriangularMesh(vertices=cube * (1.6, 1.0, 0.7), faces=CUBE_F, polarization=pol, position=pos, orientation=ori)
    elif kind == "meshT":
        o = magpy.magnet.TriangularMesh(vertices=TV, faces=[(0, 2, 1), (0, 1, 3), (0, 3, 2), (1, 2, 3)], polarization=pol,
                                        position=pos, orientation=ori)
    elif kind == "cub":
        o = magpy.magnet.Cuboid(dimension=(1.0, 1.2, 0.8), polarization=pol, position=pos, orientation=ori)
    elif kind == "ring":
        o = magpy.magnet.CylinderSegment(dimension=(0.4, 1.0, 0.6, 0, 360), polarization=pol, position=pos, orientation=ori)
    elif kind == "tet":
        o = magpy.magnet.Tetrahedron(vertices=TV, polarization=pol, position=pos, orientation=ori)
    elif kind == "tetS":    # a tetrahedron 1e-4 times the size of the other bodies of the call
        o = magpy.magnet.Tetrahedron(vertices=np.array(TV) * 1e-4, polarization=pol, position=pos, orientation=ori)
    # meshB's point lies inside meshB but outside the shape of meshA / cub (so a mask taken from the wrong body shows)
    inside_local = {"ring": (0.7, 0.1, 0.05), "tet": (0.05, 0.02, 0.0), "meshT": (0.05, 0.02, 0.0), "tetS": (0.05e-4, 0.02e-4, 0.0),
                    "meshB": (0.7, -0.07, 0.05)}.get(kind, (0.11, -0.07, 0.05))
    return o, np.array(inside_local), np.array(pol)


def run_batch(c):
    import magpylib as magpy

    kinds = c["kinds"]
    bodies = [mk_batch_body(k, i) for i, k in enumerate(kinds)]
    srcs = [b[0] for b in bodies]
    obs = np.array([b[0].orientation.apply(b[1]) + b[0].position for b in bodies] + [(1.5, 4.0, 2.0)])
    if c.get("collection"):
        srcs_arg = [magpy.Collection(*srcs)]
    else:
        srcs_arg = srcs
    mu0 = magpy.mu_0
    out = {}
    for f in "BHJM":
        out[f] = np.asarray(getattr(magpy, "get" + f)(srcs_arg, obs, squeeze=False))[:, 0, 0]   # (l, n_obs, 3)
    problems = []
    B, H, J, M = out["B"], out["H"], out["J"], out["M"]
    res = np.linalg.norm(B - mu0 * H - J, axis=-1)
    sc = np.maximum.reduce([np.linalg.norm(B, axis=-1), mu0 * np.linalg.norm(H, axis=-1), np.linalg.norm(J, axis=-1)])
    # relative to the largest field of the source in this call (bodies of very different size share the call: the far field of
    # the small one is cancellation noise at the 1e-12 level, which is C01's subject; a wrong mask shows at O(1))
    sc_src = np.max(sc, axis=1, keepdims=True)
    for l, k in np.argwhere(res > REL * np.maximum(sc_src, 1e-300))[:3]:
        problems.append(("batch-B-mu0H-J", f"source {l} observer {k}: |B-mu0H-J|={res[l, k]:.3g}", None))
    if np.max(np.abs(J - mu0 * M)) > 1e-15 * np.max(np.abs(J) + 1e-300):
        problems.append(("batch-J-mu0M", "J != mu_0*M", None))
    # the same relations in the dataframe output
    try:
        df = {f: getattr(magpy, "get" + f)(srcs_arg, obs, output="dataframe")[[f + "x", f + "y", f + "z"]].to_numpy() for f in "BHJM"}
        if df["J"].shape != df["M"].shape or np.max(np.abs(df["J"] - mu0 * df["M"])) > 1e-15 * np.max(np.abs(df["J"]) + 1e-300):
            problems.append(("batch-J-mu0M-dataframe", "J != mu_0*M in output='dataframe'", None))
        r_ = np.linalg.norm(df["B"] - mu0 * df["H"] - df["J"], axis=1)
        if np.max(r_) > REL * max(np.max(np.linalg.norm(df["B"], axis=1)), 1e-300):
            problems.append(("batch-B-mu0H-J-dataframe", f"|B-mu0H-J| = {np.max(r_):.3g} in output='dataframe'", None))
        if not np.array_equal(df["J"].reshape(J.shape), J):
            problems.append(("batch-dataframe-differs-from-array", "J of the dataframe differs from the ndarray output", None))
    except Exception as e:
        problems.append(("raised", f"dataframe output raised {type(e).__name__}: {e}"[:160], None))
    if not c.get("collection"):
        for l, (o, _, pol) in enumerate(bodies):
            for k in range(len(obs)):
                want = o.orientation.apply(pol) if k == l else np.zeros(3)
                if np.linalg.norm(J[l, k] - want) > 1e-14:
                    problems.append(("batch-J-wrong-body", f"source {l} ({kinds[l]}) observer {k} ({'own inside point' if k == l else 'outside'}): "
                                                           f"J={J[l, k].tolist()} expected {want.tolist()}", None))
    else:
        for k in range(len(obs)):
            want = bodies[k][0].orientation.apply(bodies[k][2]) if k < len(bodies) else np.zeros(3)
            if np.linalg.norm(J[0, k] - want) > 1e-14:
                problems.append(("batch-J-wrong-body", f"collection, observer {k}: J={J[0, k].tolist()} expected {want.tolist()}", None))
    # in_out given by the caller: sources that take the argument report J = polarization ('inside') or 0 ('outside') at EVERY observer,
    # the others are evaluated as always - whatever the order and the company of the call
    for io in ("inside", "outside"):
        try:
            Jio = np.asarray(magpy.getJ(srcs_arg, obs, in_out=io, squeeze=False))[:, 0, 0]
            Bio = np.asarray(magpy.getB(srcs_arg, obs, in_out=io, squeeze=False))[:, 0, 0]
            Hio = np.asarray(magpy.getH(srcs_arg, obs, in_out=io, squeeze=False))[:, 0, 0]
        except Exception as e:
            problems.append(("raised", f"in_out={io} raised {type(e).__name__}: {e}"[:160], None))
            continue
        want = np.zeros((len(bodies), len(obs), 3))
        for l, (o, _, pol) in enumerate(bodies):
            for k in range(len(obs)):
                if kinds[l] in IN_OUT_KINDS:
                    want[l, k] = o.orientation.apply(pol) if io == "inside" else 0.0
                else:
                    want[l, k] = o.orientation.apply(pol) if k == l else 0.0
        if c.get("collection"):
            want = want.sum(axis=0, keepdims=True)
        if np.max(np.linalg.norm(Jio - want, axis=-1)) > 1e-14:
            l, k = np.unravel_index(np.argmax(np.linalg.norm(Jio - want, axis=-1)), Jio.shape[:2])
            problems.append((f"batch-J-wrong-with-in_out={io}", f"entry {l} ({'collection' if c.get('collection') else kinds[l]}) observer {k}: J={Jio[l, k].tolist()} expected {want[l, k].tolist()}", None))
        r_ = np.linalg.norm(Bio - mu0 * Hio - Jio, axis=-1)
        s_ = np.maximum(np.max(np.linalg.norm(Bio, axis=-1), axis=1, keepdims=True), 1e-300)
        if np.max(r_ / s_) > 1e-9:
            problems.append((f"batch-B-mu0H-J-with-in_out={io}", f"rel {np.max(r_ / s_):.3g}", None))
    return {"rows": 4 * len(obs) * len(srcs), "problems": problems[:4], "n_inside": len(bodies), "n_surface": 0}


CUSTOM_POL = np.array((0.3, -0.5, 0.8))
CUSTOM_R = 0.6
CUSTOM_FORMS = ["method", "toplevel", "sensor", "collection", "mixed_list_first", "mixed_list_last", "two_customs", "sumup"]


def _custom_sphere(field, observers):
    """a user-written magnet model: the uniformly magnetised sphere in closed form, all four outputs defined"""
    from scipy.constants import mu_0 as MU0

    x = np.asarray(observers, float)
    r = np.linalg.norm(x, axis=1)
    ins = r < CUSTOM_R
    J = np.where(ins[:, None], CUSTOM_POL, 0.0)
    rr = np.where(ins, 1.0, r)
    dip = (3 * (x @ CUSTOM_POL)[:, None] * x / rr[:, None] ** 5 - CUSTOM_POL / rr[:, None] ** 3) * CUSTOM_R ** 3 / 3
    B = np.where(ins[:, None], 2 * CUSTOM_POL / 3, dip)
    return {"B": B, "H": (B - J) / MU0, "J": J, "M": J / MU0}[field]


def run_custom(c):
    """CustomSource whose field function defines B, H, J and M: the four outputs of every interface must be what the function
    returns (rotated into the observer frame), hence mutually consistent"""
    import magpylib as magpy
    from scipy.spatial.transform import Rotation as R

    pose = POSES[c["pose"]]
    Rm = R.from_rotvec(pose[1])
    src = magpy.misc.CustomSource(field_func=_custom_sphere, position=pose[0], orientation=Rm)
    g = np.array([-0.9, -0.45, -0.2, 0.0, 0.25, 0.5, 1.1])
    local = np.array([(x, y, z) for x in g for y in g for z in g]) + (0.013, -0.007, 0.011)
    obs = Rm.apply(local) + np.array(pose[0])
    cub = magpy.magnet.Cuboid(dimension=(0.3, 0.2, 0.4), polarization=(0.1, 0.2, -0.3), position=(5, 4, 3))
    circ = magpy.current.Circle(diameter=0.7, current=1.2, position=(-4, 5, 2))
    mu0 = magpy.mu_0
    out = {}
    form = c["form"]
    for f in "BHJM":
        fn = getattr(magpy, "get" + f)
        if form == "method":
            v = getattr(src, "get" + f)(obs)
        elif form == "toplevel":
            v = fn(src, obs)
        elif form == "sensor":
            v = getattr(magpy.Sensor(pixel=obs), "get" + f)(src)
        elif form == "collection":
            v = getattr(magpy.Collection(src.copy()), "get" + f)(obs)
        elif form == "mixed_list_first":
            v = fn([src, cub, circ], obs)[0]
        elif form == "mixed_list_last":
            v = fn([circ, cub, src], obs)[2]
        elif form == "two_customs":
            v = fn([src, src.copy(position=(9, 9, 9)), circ], obs)[0]
        else:
            far = fn([cub, circ], obs, sumup=True)
            v = fn([src, cub, circ], obs, sumup=True) - far
        out[f] = np.asarray(v).reshape(-1, 3)
    problems = []
    tol = 1e-9 if form == "sumup" else 1e-12
    for f in "BHJM":
        exp = Rm.apply(_custom_sphere(f, local))
        sc = np.max(np.abs(exp))
        err = np.max(np.abs(out[f] - exp)) / sc
        if not err <= tol:
            problems.append((f"custom-{f}-not-the-function-value|{form}", f"rel={err:.3g}", None))
    B, H, J, M = (out[f] for f in "BHJM")
    res = np.max(np.linalg.norm(B - mu0 * H - J, axis=1)) / np.max(np.linalg.norm(B, axis=1))
    if not res <= max(tol, 1e-12):
        problems.append((f"custom-B-mu0H-J|{form}", f"rel={res:.3g}", None))
    res2 = np.max(np.linalg.norm(J - mu0 * M, axis=1)) / np.max(np.linalg.norm(J, axis=1))
    if not res2 <= max(tol, 1e-12):
        problems.append((f"custom-J-mu0M|{form}", f"rel={res2:.3g}", None))
    ins = np.linalg.norm(local, axis=1) < CUSTOM_R
    return {"rows": len(local), "problems": problems, "n_inside": int(ins.sum()), "n_surface": 0}


def work(c):
    try:
        if c["part"] == "batch":
            return run_batch(c)
        if c["part"] == "custom":
            return run_custom(c)
        if c["part"] == "field":
            return run_case(c)
        return {"rows": 1, "problems": [(k, d, None) for k, d in run_attr(c)]}
    except Exception as e:
        import traceback

        return {"harness": f"{type(e).__name__}: {e} {traceback.format_exc()[-300:]}"}


def enumerate_cases(tier):
    cases = []
    for cls, regs in REGIMES.items():
        for ri in range(len(regs)):
            for pi in range(len(POLS) if cls in MAGNETS else 1):
                for po in range(len(POSES)):
                    modes = ["auto", "inside", "outside"] if cls in ("Tetrahedron", "TriangularMesh") else ["auto"]
                    for io in modes:
                        if tier == "quick" and pi > 0 and po == 2:
                            continue
                        cases.append({"part": "field", "cls": cls, "regime": ri, "pol": pi, "pose": po, "in_out": io})
    for cls in MAGNETS + ["Triangle"]:
        for form in ("ctor_pol", "ctor_mag", "set_pol", "set_mag", "J_M_J", "M_J_M", "set_mag_warning_as_error", "set_pol_warning_as_error",
                     "ctor_pol_mutate_input", "set_pol_mutate_input", "ctor_mag_mutate_input", "set_mag_mutate_input",
                     "imul_pol", "imul_mag", "iadd_pol", "iadd_mag", "edit_then_assign_pol", "edit_then_assign_mag"):
            for val in ((0.2, -0.3, 0.9), (0, 0, 0), (1e-12, 0, 2e-12), (1e12, -3e12, 2e12), (0, 0, 1.0)):
                cases.append({"part": "attr", "cls": cls, "form": form, "value": list(val)})
    for form in CUSTOM_FORMS:
        for po in range(len(POSES)):
            cases.append({"part": "custom", "form": form, "pose": po})
    import itertools

    for n in (2, 3):
        for kinds in itertools.product(BATCH_KINDS, repeat=n):
            for coll in (False, True):
                if coll and n == 3 and tier == "quick":
                    continue
                cases.append({"part": "batch", "kinds": list(kinds), "collection": coll})
    return cases


def run(tier, seed):
    cases = enumerate_cases(tier)
    res = common.pmap(work, cases, chunk=4)
    viols, harness = [], []
    rows = nsurf = nins = nnonfin = 0
    for c, r in zip(cases, res):
        if r.get("harness"):
            harness.append(f"{c}: {r['harness']}")
            continue
        rows += r["rows"] * (4 if c["part"] in ("field", "custom") else 1)
        if c["part"] == "batch":
            for kind, detail, loc in r["problems"]:
                viols.append({"key": f"C02|batch|{kind}|{'+'.join(sorted(set(c['kinds'])))}", "what": f"{c}: {kind}: {detail}", "case": c,
                              "observed": [kind, detail]})
            continue
        nsurf += r.get("n_surface", 0)
        nins += r.get("n_inside", 0)
        nnonfin += r.get("n_nonfinite", 0)
        for kind, detail, loc in r["problems"]:
            if c["part"] == "custom":
                key = f"C02|CustomSource|{kind}"
            elif c["part"] == "field":
                key = f"C02|{c['cls']}|regime={c['regime']}|{kind}"
            else:
                key = f"C02|attr|{kind}|{c['cls']}"
            viols.append({"key": key, "what": f"{c}: {kind}: {detail} local_point={loc}", "case": c, "observed": [kind, detail]})
    cov = {
        "evaluations": rows, "distinct_nontrivial": nsurf + nins,
        "rule": "one evaluation = one (observer row, field) of a vectorised call; rows are distinct special-set cells of the "
                "class; non-trivial rows counted = rows inside a body or on its surface band (the rows where J, the inside "
                "term and the special-case masks matter)",
        "samples": [cases[0], cases[len(cases) // 2], cases[-1]],
        "exhaustive": True, "calls": len(cases), "surface_rows": nsurf, "inside_rows": nins, "nonfinite_rows_skipped": nnonfin,
        "regimes": {k: len(v) for k, v in REGIMES.items()},
    }
    if nsurf < 100 or nins < 100:
        harness.append("vacuous: too few surface / inside rows")
    return {"coverage": cov, "violations": viols, "harness_errors": harness[:5],
            "assumptions": ["inside/outside truth = exact local-frame predicate with a 1e-9 relative surface band in which only the "
                            "consistency relations are demanded", "rows with non-finite outputs are left to C15"]}


def replay(case):
    r = work(case)
    return {"violated": bool(r.get("problems")), "observed": [[p[0], p[1]] for p in r.get("problems", [])][:6]}
