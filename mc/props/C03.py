"""C03 - fields are covariant under rigid motion of the whole setup.

History explorer: words over six rigid-motion generators, applied THROUGH THE REAL API
(rotate / move, with anchor 0, an explicit anchor, and anchor=None = own position) to a source with a
path, and numerically to the observers. After every word: getX(src', g.obs)[m] = R_g getX(src, obs)[m]
for every path index m. Depth-0 definitional check: a source placed by constructor arguments (12-pose
menu, static and as a path) must return R B_local(R^T (obs - p)) with B_local from the identity pose.
"""
import itertools

import numpy as np

from mc import common

LEVEL = "model_checking"
RTOL = 1e-9

KINDS = ["Cuboid", "Cylinder", "CylinderSegment", "Sphere", "Tetrahedron", "TriangularMesh", "Triangle", "Circle", "Polyline",
         "Dipole", "CollFlat", "CollNested"]
RV = {"R1": (0.3, -0.5, 0.4), "R2": (-0.7, 0.2, 0.9), "R3": (0.1, 1.1, -0.3)}
GENS = [("rot", "R1", "0"), ("rot", "R2", "0"), ("rot", "R3", "a"), ("rot", "R2", "N"), ("move", "t1"), ("move", "t2")]
ANCH = {"0": 0, "a": (0.7, -0.4, 1.1)}
TR = {"t1": (0.8, -0.3, 0.5), "t2": (-0.2, 1.3, -0.6)}
OBS = np.array([(0.05, 0.04, 0.03), (0.21, -0.13, 0.08), (1.7, 0.9, -0.6), (-1.2, 1.4, 0.7), (0.3, -2.1, 1.1), (2.5, 2.2, 2.9),
                (-0.9, -0.8, -1.7), (0.02, 0.01, 1.4), (1.1, 0.05, 0.02), (-3.0, 0.5, 0.2), (0.4, 0.45, -0.35), (6.0, -5.0, 4.0)])


def Rot(rv):
    from scipy.spatial.transform import Rotation as R

    return R.from_rotvec(np.array(rv, float))


def mk(kind, pathkind):
    """asymmetric instance of each class with an initial path"""
    import magpylib as magpy

    pol = (0.2, -0.3, 0.9)
    if kind == "Cuboid":
        o = magpy.magnet.Cuboid(dimension=(1.0, 1.3, 0.7), polarization=pol)
    elif kind == "Cylinder":
        o = magpy.magnet.Cylinder(dimension=(1.1, 0.8), polarization=pol)
    elif kind == "CylinderSegment":
        o = magpy.magnet.CylinderSegment(dimension=(0.3, 0.9, 1.1, -30, 200), polarization=pol)
    elif kind == "Sphere":
        o = magpy.magnet.Sphere(diameter=1.1, polarization=pol)
    elif kind == "Tetrahedron":
        o = magpy.magnet.Tetrahedron(vertices=[(-0.5, -0.4, -0.3), (0.9, -0.3, -0.4), (-0.2, 0.8, -0.3), (0.1, 0.0, 0.9)], polarization=pol)
    elif kind == "TriangularMesh":
        o = magpy.magnet.TriangularMesh(vertices=[(-0.5, -0.4, -0.3), (0.9, -0.3, -0.4), (-0.2, 0.8, -0.3), (0.1, 0.0, 0.9)],
                                        faces=[(0, 2, 1), (0, 1, 3), (0, 3, 2), (1, 2, 3)], polarization=pol)
    elif kind == "Triangle":
        o = magpy.misc.Triangle(vertices=[(-0.5, -0.4, -0.3), (0.9, -0.3, -0.4), (-0.2, 0.8, 0.2)], polarization=pol)
    elif kind == "Circle":
        o = magpy.current.Circle(diameter=1.3, current=2.5)
    elif kind == "Polyline":
        o = magpy.current.Polyline(vertices=[(0, 0, 0), (1, 1, 0.5), (1, 2, -0.4), (-0.5, 1, 0.3)], current=1.5)
    elif kind == "Dipole":
        o = magpy.misc.Dipole(moment=(0.3, -0.2, 0.7))
    elif kind == "CollFlat":
        a = magpy.magnet.Cuboid(dimension=(0.5, 0.4, 0.3), polarization=pol, position=(0.8, 0.1, -0.2))
        b = magpy.current.Circle(diameter=0.7, current=2.0, position=(-0.6, 0.3, 0.4)).rotate_from_angax(40, (1, 1, 0))
        o = magpy.Collection(a, b, position=(0.2, 0.1, 0.05))
    elif kind == "CollNested":
        a = magpy.magnet.Cuboid(dimension=(0.5, 0.4, 0.3), polarization=pol, position=(0.8, 0.1, -0.2))
        b = magpy.misc.Dipole(moment=(0.1, 0.2, 0.3), position=(-0.6, 0.3, 0.4))
        c = magpy.magnet.Sphere(diameter=0.4, polarization=(0.5, 0, 0.1), position=(0.1, -0.9, 0.3))
        inner = magpy.Collection(b, c, position=(-0.3, -0.4, 0.6))
        o = magpy.Collection(a, inner, position=(0.2, 0.1, 0.05))
    else:
        raise AssertionError(kind)
    o.move((0.15, -0.1, 0.2))
    o.rotate_from_rotvec((0.2, 0.1, -0.3), degrees=False)
    if pathkind == "transl":
        o.move([(0.1, 0.05, 0.0), (0.2, 0.1, -0.05)])
    elif pathkind == "rotating":
        o.move([(0.1, 0.05, 0.0), (0.2, 0.1, -0.05)])
        o.rotate_from_rotvec([(0.0, 0.2, 0.1), (0.3, 0.4, -0.2)], degrees=False, start=1)
    return o


def apply_word(o, word):
    """apply the word through the API; return per-path-index affine maps (A_m, b_m) of the whole motion"""
    L = len(o._position)
    A = [np.eye(3) for _ in range(L)]
    b = [np.zeros(3) for _ in range(L)]
    for g in word:
        if g[0] == "move":
            t = np.array(TR[g[1]])
            o.move(t)
            b = [x + t for x in b]
        else:
            Rm = Rot(RV[g[1]]).as_matrix()
            if g[2] == "N":
                anchors = [np.array(p) for p in o._position]  # own position, per path index
                o.rotate(Rot(RV[g[1]]), anchor=None)
            else:
                a = np.zeros(3) if g[2] == "0" else np.array(ANCH[g[2]])
                anchors = [a] * L
                o.rotate(Rot(RV[g[1]]), anchor=ANCH[g[2]])
            A = [Rm @ x for x in A]
            b = [Rm @ x + an - Rm @ an for x, an in zip(b, anchors)]
    return A, b


def field(o, obs, f):
    import magpylib as magpy

    return np.asarray(getattr(magpy, "get" + f)(o, obs, squeeze=False))[0, :, 0]  # (m, n, 3)


def check_word(task):
    kind, pathkind, word = task
    problems = []
    for f in ("B", "H"):
        base = mk(kind, pathkind)
        F0 = field(base, OBS, f)
        o = mk(kind, pathkind)
        A, b = apply_word(o, word)
        L = len(A)
        if len(o._position) != L:
            problems.append((f, "path length changed by a scalar rigid motion"))
            continue
        for m in range(L):
            obs_m = OBS @ A[m].T + b[m]
            Fm = field(o, obs_m, f)[m]
            exp = F0[m] @ A[m].T
            sc = np.max(np.linalg.norm(exp, axis=1))
            err = np.max(np.linalg.norm(Fm - exp, axis=1)) / sc
            if not err <= RTOL:
                problems.append((f, f"path index {m}: rel deviation {err:.3g}"))
                break
    return problems


# ------------------------------------------------------------------ sensor observers: a common rigid motion changes nothing
SENS_KINDS = ["static", "wobble", "rotpath", "micro", "left_id", "left_rot", "tiny"]


def mk_sensor(skind):
    import magpylib as magpy

    s = magpy.Sensor(pixel=[(0.1, 0.2, 0.3), (-0.2, 0.1, 0.0), (0.0, 0.0, 0.0)], position=(1.4, -0.8, 0.9))
    if skind == "left_id":     # left-handed and exactly unrotated (translated only): becomes rotated under a common motion
        s.handedness = "left"
        s.move([(0.1, 0.0, 0.05), (0.2, -0.1, 0.1)])
        return s
    if skind == "tiny":       # tilted by 0.3 deg only: a rotated sensor, however little
        s.rotate_from_angax(0.3, (1, -2, 0.5))
        s.move([(0.1, 0.0, 0.05)])
        return s
    if skind == "left_rot":
        s.handedness = "left"
    s.rotate_from_rotvec((0.3, -0.2, 0.5), degrees=False)
    if skind == "wobble":      # orientations -a, +a about one axis: quaternions that mirror each other
        s.orientation = None
        s.rotate_from_angax([-25, 25], (0.2, 1.0, -0.4), start=0)
    elif skind == "rotpath":
        s.move([(0.1, 0.0, 0.05), (0.2, -0.1, 0.1)])
        s.rotate_from_rotvec([(0.2, 0.0, 0.1), (-0.1, 0.4, 0.3)], degrees=False, start=1)
    elif skind == "micro":     # a tilt sweep of 1e-6 rad steps: still a rotating path
        s.rotate_from_angax([0.0, 6e-5, 1.2e-4], (1.0, 0.3, 0.2), start=0)
    return s


def check_sensor_word(task):
    """the sensor reports in its own frame: moving source AND sensor by the same rigid motion (through the API) must leave
    every reading exactly where it was (anchor=None rotations are excluded: they are not a common motion of two objects)"""
    import magpylib as magpy

    kind, pathkind, skind, word = task
    problems = []
    for f in ("B", "H"):
        src0, sens0 = mk(kind, pathkind), mk_sensor(skind)
        F0 = np.asarray(getattr(magpy, "get" + f)(src0, sens0, squeeze=False))
        src, sens = mk(kind, pathkind), mk_sensor(skind)
        for o in (src, sens):
            apply_word(o, word)
        F1 = np.asarray(getattr(magpy, "get" + f)(src, sens, squeeze=False))
        if F1.shape != F0.shape:
            problems.append((f, f"shape changed {F0.shape} -> {F1.shape}"))
            continue
        sc = np.max(np.abs(F0))
        err = np.max(np.abs(F1 - F0)) / sc
        if not err <= RTOL:
            m = int(np.unravel_index(np.argmax(np.abs(F1 - F0)), F0.shape)[1])
            problems.append((f, f"sensor reading changed under a common rigid motion: rel {err:.3g} at path index {m}"))
    return problems


def check_pose(task):
    """definitional: pose = local frame placed in the global frame (static and along a path, several observers)"""
    kind, pi = task
    from scipy.spatial.transform import Rotation as R

    poses = pose_menu()
    problems = []
    for f in ("B", "H"):
        loc = mk_local(kind)
        # static pose
        p, rv = poses[pi]
        Rm = Rot(rv)
        o = mk_local(kind)
        o.position, o.orientation = p, Rm
        got = field(o, OBS, f)[0]
        exp = Rm.apply(field(loc, Rm.inv().apply(OBS - np.array(p)), f)[0])
        sc = np.max(np.linalg.norm(exp, axis=1))
        if not np.max(np.linalg.norm(got - exp, axis=1)) / sc <= RTOL:
            problems.append((f, "static pose not honoured"))
        # the same poses as ONE path, evaluated in one call with several observers
        o = mk_local(kind)
        idx = [pi, (pi + 5) % len(poses), (pi + 7) % len(poses), (pi + 2) % len(poses)]
        o.position = [poses[i][0] for i in idx]
        o.orientation = R.from_rotvec([poses[i][1] for i in idx])
        got = field(o, OBS, f)
        for m, i in enumerate(idx):
            Ri = Rot(poses[i][1])
            exp = Ri.apply(field(loc, Ri.inv().apply(OBS - np.array(poses[i][0])), f)[0])
            sc = np.max(np.linalg.norm(exp, axis=1))
            if not np.max(np.linalg.norm(got[m] - exp, axis=1)) / sc <= RTOL:
                problems.append((f, f"path pose {m} of a rotating path not honoured"))
                break
    return problems


def mk_local(kind):
    o = mk(kind, "static")
    if hasattr(o, "children"):
        o.position = (0, 0, 0)  # moves the children along: the compound is the 'local frame' body
        o.orientation = None
    else:
        o.position, o.orientation = (0, 0, 0), None
    return o


def pose_menu():
    out = [((0, 0, 0), (0, 0, 0))]
    for i in range(11):
        out.append(((0.3 * np.cos(i), 0.4 * np.sin(2 * i), 0.1 * i - 0.5), (0.4 * np.sin(i + 1), 0.3 * np.cos(2 * i), 0.25 * i - 1.2)))
    return out


def work(task):
    try:
        if task[0] == "word":
            return check_word(task[1:])
        if task[0] == "sword":
            return check_sensor_word(task[1:])
        return check_pose(task[1:])
    except Exception as e:
        import traceback

        return [("HARNESS", f"{type(e).__name__}: {e} {traceback.format_exc()[-300:]}")]


def run(tier, seed):
    depth = 3 if tier == "quick" else 4
    words = [w for d in range(1, depth + 1) for w in itertools.product(GENS, repeat=d)]
    tasks = []
    for kind in KINDS:
        for pk in ("static", "transl", "rotating"):
            for w in words:
                if len(w) == 4 and (pk == "transl" or kind not in ("Cuboid", "CylinderSegment", "Polyline", "CollNested")):
                    continue
                tasks.append(("word", kind, pk, w))
    for kind in KINDS:
        if kind.startswith("Coll"):
            continue
        for pi in range(12):
            tasks.append(("pose", kind, pi))
    fixed = [g for g in GENS if not (g[0] == "rot" and g[2] == "N")]
    swords = [w for d in range(1, (2 if tier == "quick" else 3) + 1) for w in itertools.product(fixed, repeat=d)]
    for kind in (KINDS if tier == "thorough" else ["Cuboid", "CylinderSegment", "Polyline", "Dipole", "CollNested"]):
        for pk in ("static", "rotating"):
            for sk in SENS_KINDS:
                for w in swords:
                    tasks.append(("sword", kind, pk, sk, w))
    res = common.pmap(work, tasks)
    viols, harness = [], []
    for t, r in zip(tasks, res):
        for f, msg in r:
            if f == "HARNESS":
                harness.append(f"{t}: {msg}")
                continue
            if t[0] == "word":
                gens = "+".join(sorted({g[0] + (":" + g[2] if g[0] == "rot" else "") for g in t[3]}))
                key = f"C03|word|{t[1]}|{t[2]}|{gens}"
            elif t[0] == "sword":
                gens = "+".join(sorted({g[0] + (":" + g[2] if g[0] == "rot" else "") for g in t[4]}))
                key = f"C03|sensor-word|{t[1]}|{t[2]}|sensor={t[3]}|{gens}"
                viols.append({"key": key, "what": f"{t}: {f}: {msg}", "case": {"task": [t[0], t[1], t[2], t[3], [list(g) for g in t[4]]]},
                              "observed": [f, msg]})
                continue
            else:
                key = f"C03|pose|{t[1]}|{msg.split(' of ')[0].replace(' ', '-')[:40]}"
            viols.append({"key": key, "what": f"{t}: {f}: {msg}", "case": {"task": [t[0], t[1], t[2], [list(g) for g in t[3]]] if t[0] == "word" else list(t)},
                          "observed": [f, msg]})
    nw = sum(1 for t in tasks if t[0] in ("word", "sword"))
    states = len({(t[1], t[2], t[3][:-1]) for t in tasks if t[0] == "word"}) + len({(t[1], t[2], t[3], t[4][:-1]) for t in tasks if t[0] == "sword"})
    cov = {
        "states": states, "transitions": nw * 2, "traces_validated_against_impl": nw * 2,
        "samples": [{"kind": t[1], "path": t[2], "word": [list(g) for g in t[3]]} for t in (tasks[7], tasks[77], tasks[777])],
        "sensor_observer_words": sum(1 for t in tasks if t[0] == "sword"), "sensor_kinds": SENS_KINDS,
        "exhaustive": True, "depth": depth, "generators": [list(g) for g in GENS], "kinds": KINDS,
        "definitional_pose_checks": len(tasks) - nw,
        "rule": "state = (class, initial path kind, word prefix); transition = one more rigid-motion generator applied through "
                "rotate()/move(); invariant checked after every word for B and H and every path index at 12 generic observers",
    }
    return {"coverage": cov, "violations": viols, "harness_errors": harness[:5],
            "assumptions": ["observers are at least 1e-2 from every surface, so rounding cannot flip an inside/outside decision"]}


def replay(case):
    t = case["task"]
    if t[0] == "sword":
        r = work(("sword", t[1], t[2], t[3], tuple(tuple(g) for g in t[4])))
    elif t[0] == "word":
        r = work(("word", t[1], t[2], tuple(tuple(g) for g in t[3])))
    else:
        r = work(tuple(t))
    return {"violated": bool(r), "observed": [list(x) for x in r]}
