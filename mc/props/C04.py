"""C04 - a Sensor reports the global field at its pixels, in its own frame.

Grid explorer: complete product of (number of sensors x per-sensor pixel shape x path kind x
handedness x pixel_agg x source set x path lengths x call form). Oracle: explicit pixel positions
R_m*pix + p_m per sensor path index, field from getB(sources, those positions) (array observers
never touch the sensor code path), rotated by R_m^T, x negated for left-handed sensors, reduced
with the named NumPy function over the pixel axes.
"""
import itertools

import numpy as np

from mc import common

LEVEL = "exploration"
RTOL = 1e-10

PIX = {"None": None, "3": (0.1, 0.2, 0.3), "13": [(0.1, 0.2, 0.3)], "23": [(0.1, 0.2, 0.3), (-0.2, 0.1, 0)],
       "223": [[(0.1, 0.2, 0.3), (-0.2, 0.1, 0)], [(0, 0, 0.3), (0.3, 0, 0)]]}
KINDS = ["static_id", "static_rot", "transl", "rotpath", "rot_pm", "rot_return", "rot_half", "static_tiny", "rot_tiny", "rot_micro"]
HANDS = ["right", "left"]
AGGS = [None, "mean", "min", "max", "median", "std"]
SECOND_MENU = [("23", "rot_tiny", "left"), ("23", "rotpath", "left"), ("None", "static_id", "right"), ("223", "transl", "right"),
               ("3", "rot_pm", "left"), ("13", "static_rot", "right"), ("23", "rot_return", "right"),
               ("223", "static_id", "left"), ("None", "rot_half", "left")]
THIRD_MENU = [("23", "rot_pm", "left"), ("None", "static_rot", "right"), ("223", "rotpath", "right")]


def mk_sensor(pix, kind, hand, L, k=0, between=None):
    """between: callable run on the freshly created (static, unrotated) sensor BEFORE its path is built - a field
    computation there must not leave anything behind that survives the later moves and rotations"""
    import magpylib as magpy

    s = magpy.Sensor(pixel=PIX[pix], handedness=hand, position=(3 + 0.7 * k, 2 - 0.4 * k, 1 + 0.3 * k))
    if between is not None:
        between(s)
    if kind == "static_id":
        if L > 1:
            pass  # static sensor: path length 1 whatever L is
    elif kind == "static_rot":
        s.rotate_from_rotvec((0.3, -0.2, 0.5), degrees=False)
    elif kind == "transl":
        s.rotate_from_rotvec((0.3, -0.2, 0.5), degrees=False)
        if L > 1:
            s.move([(0.1 * i, 0.2, 0) for i in range(1, L)])
    elif kind == "rotpath":
        if L > 1:
            s.rotate_from_rotvec([(0.1 * i, 0.2 * i, -0.1) for i in range(1, L)], degrees=False, anchor=(0, 0, 0))
        else:
            s.rotate_from_rotvec((0.1, 0.2, 0.3), degrees=False)
    elif kind == "rot_pm":  # orientations -a, +a, -a about one axis (q and its conjugate)
        angs = [-40, 40, -40][:L]
        s.orientation = _rotax((0, 0, 1), angs if L > 1 else angs[0])
        if L > 1:
            s.position = [(3 + 0.1 * i, 2, 1) for i in range(L)]
    elif kind == "rot_return":  # orientation returns to its start value
        angs = [0, 30, 0][:L]
        s.orientation = _rotax((0, 1, 0), angs if L > 1 else 25)
    elif kind == "static_tiny":  # misaligned by 0.3 deg: rotated, however little
        s.rotate_from_angax(0.3, (1, -2, 0.5))
    elif kind == "rot_tiny":     # wobbling by +-0.2 deg and less along a translating path
        angs = [0.2, -0.2, 0.05][:L]
        s.orientation = _rotax((0.3, 1, -0.2), angs if L > 1 else angs[0])
        if L > 1:
            s.position = [(3 + 0.1 * i, 2, 1 - 0.05 * i) for i in range(L)]
    elif kind == "rot_micro":    # generic orientation followed by micro-radian steps: a rotating path, however fine
        s.rotate_from_rotvec((0.3, -0.2, 0.5), degrees=False)
        if L > 1:
            s.rotate_from_angax([4e-7 * i for i in range(1, L)], (0.2, 1.0, -0.4), degrees=False)
    elif kind == "rot_half":  # unit rotation first, rotated later (the 'unrotated' shortcut must not apply)
        angs = [0, 0, 50][:L]
        s.orientation = _rotax((1, 0, 0), angs if L > 1 else 0)
    return s


def _rotax(axis, angs):
    a = np.deg2rad(np.array(angs, float))
    ax = np.array(axis, float)
    return _R().from_rotvec(a[..., None] * ax if a.ndim else a * ax)


def _R():
    from scipy.spatial.transform import Rotation as R

    return R


def mk_sources(name, L):
    import magpylib as magpy

    R = _R()
    src1 = magpy.magnet.Cuboid(dimension=(1, 1.4, 0.8), polarization=(0.3, -0.5, 1.0), position=(0.2, 0.1, -0.3),
                               orientation=R.from_rotvec((0.2, 0.3, -0.1)))
    if L > 1:
        src1.move([(0.1 * i, 0, 0.05 * i) for i in range(1, L)])
        src1.rotate_from_angax([7.0 * i for i in range(L)], (1, 1, 0), start=0)
    if name == "one":
        return [src1]
    col = magpy.Collection(magpy.current.Circle(diameter=1, current=2, position=(0, 0, 1)),
                           magpy.misc.Dipole(moment=(1, 2, 3), position=(2, 2, 2)))
    if L > 1:
        col.move([(0, 0.1, 0)] * 1)
    return [src1, col]


def pix_shape(s):
    return (1, 3) if (s.pixel is None or np.array(s.pixel).shape == (3,)) else np.array(s.pixel).shape


def oracle(sources, sensors, agg, field):
    import magpylib as magpy

    fn = getattr(magpy, "get" + field)
    lens = [len(s._position) for s in sensors]
    for src in sources:
        for x in (src.sources_all if hasattr(src, "sources_all") else [src]):
            lens.append(len(x._position))
        if hasattr(src, "sources_all"):
            lens.append(len(src._position))
    M = max(lens)
    out = np.empty((len(sources), M, len(sensors)), dtype=object)
    for k, s in enumerate(sensors):
        pix = np.zeros((1, 3)) if s.pixel is None else np.array(s.pixel, float).reshape(-1, 3)
        for m in range(M):
            ms = min(m, len(s._position) - 1)
            Rm = s._orientation[ms]
            glob = Rm.apply(pix) + s._position[ms]
            Bg = fn(sources, glob, squeeze=False)  # (l, Msrc, 1, npix, 3)
            mm = min(m, Bg.shape[1] - 1)
            for l in range(len(sources)):
                B = Rm.inv().apply(Bg[l, mm, 0].reshape(-1, 3))
                if s.handedness == "left":
                    B[:, 0] *= -1
                B = B.reshape(pix_shape(s))
                if agg:
                    B = getattr(np, agg)(B.reshape(-1, 3), axis=0)
                out[l, m, k] = B
    return out, M


def run_case(c):
    import magpylib as magpy

    sLs = c["sensL"] if isinstance(c["sensL"], list) else [c["sensL"]] * len(c["sensors"])
    sources = mk_sources(c["sources"], c["srcL"])
    between = None
    if c.get("precall"):   # history: evaluate with the still static sensor, then build its path, then evaluate again
        between = lambda s: getattr(magpy, "get" + c["field"])(sources, s)  # noqa: E731
    sens = [mk_sensor(p, kd, h, sLs[k], k, between) for k, (p, kd, h) in enumerate(c["sensors"])]
    agg, field, form = c["agg"], c["field"], c["form"]
    fn = getattr(magpy, "get" + field)
    try:
        if form == "list":
            got = fn(sources, sens, pixel_agg=agg, squeeze=False)
        elif form == "collection":
            got = fn(sources, magpy.Collection(*sens), pixel_agg=agg, squeeze=False)
        elif form == "nested_collection":   # sensors in a nested Collection tree: pre-order of the tree = order of the list
            tree = magpy.Collection(magpy.Collection(*sens[:-1]), sens[-1]) if len(sens) > 1 else magpy.Collection(magpy.Collection(sens[0]))
            got = fn(sources, tree, pixel_agg=agg, squeeze=False)
        elif form == "method":
            got = getattr(sens[0], "get" + field)(*sources, pixel_agg=agg, squeeze=False)
        elif form == "squeezed":
            got = fn(sources, sens, pixel_agg=agg, squeeze=True)
    except Exception as e:
        return f"raised {type(e).__name__}: {e}"[:200]
    exp, M = oracle(sources, sens, agg, field)
    shapes = [pix_shape(s) for s in sens]
    if agg is None:
        full = np.empty((len(sources), M, len(sens)) + shapes[0])
    else:
        full = np.empty((len(sources), M, len(sens), 1, 3))
    for idx in np.ndindex(exp.shape):
        full[idx] = exp[idx] if agg is None else np.reshape(exp[idx], (1, 3))
    if form == "squeezed":
        full = np.squeeze(full if agg is None else full[..., 0, :])
    if got.shape != full.shape:
        return f"shape {got.shape} != expected {full.shape}"
    scale = max(1e-300, float(np.max(np.abs(full))))
    err = float(np.max(np.abs(got - full))) / scale
    if not err <= RTOL:
        bad = np.argwhere(np.abs(got - full) > RTOL * scale)
        return f"values differ rel={err:.3g} at index {bad[0].tolist()}"
    return None


def work(c):
    try:
        return run_case(c)
    except Exception as e:
        import traceback

        return "HARNESS " + f"{type(e).__name__}: {e} {traceback.format_exc()[-300:]}"


def enumerate_cases(tier):
    cfgs = list(itertools.product(PIX, KINDS, HANDS))
    cases = []

    def add(sensors, aggs, forms=("list",)):
        shapes = {p if p not in ("None", "3", "13") else "13" for p, _, _ in sensors}
        for agg in aggs:
            if agg is None and len(shapes) > 1:
                continue
            for sources in ("one", "two"):
                # (source path length, sensor path length(s)): equal, static vs path, and sensor paths strictly between 1
                # and the longest path of the call (own length 2 or 3 with a source path of 5; sensors of unequal lengths)
                combos = [(1, 1), (1, 3), (3, 1), (3, 3)]
                if agg in (None, "mean"):
                    combos += [(5, 3), (5, 2)]
                    if len(sensors) > 1:
                        combos += [(1, [3, 2, 3][:len(sensors)]), (5, [2, 3, 1][:len(sensors)])]
                for srcL, sensL in combos:
                    for form in forms:
                        cases.append({"sensors": [list(x) for x in sensors], "agg": agg, "sources": sources,
                                      "srcL": srcL, "sensL": sensL, "form": form, "field": "B"})

    for c1 in cfgs:
        add([c1], AGGS, ("list", "method", "squeezed", "collection"))
    n0 = len(cases)
    for c1 in cfgs:
        add([c1], [None, "mean"], ("list",))
    for c in cases[n0:]:
        c["precall"] = True
    for c1 in cfgs:
        for c2 in (SECOND_MENU if tier == "quick" else cfgs):
            if tier == "thorough":
                add([c1, c2], AGGS, ("list", "nested_collection"))
            else:
                add([c1, c2], [None, "mean", "max", "std"], ("list",))
                if c2 in SECOND_MENU[:2]:
                    add([c1, c2], [None, "mean"], ("nested_collection",))
    third = THIRD_MENU
    for c1 in (SECOND_MENU if tier == "quick" else cfgs):
        for c2 in SECOND_MENU:
            for c3 in third:
                add([c1, c2, c3], [None, "min", "median"], ("list", "collection", "nested_collection"))
    # H field on a sub-grid
    for c1 in cfgs[::3]:
        for c in [x for x in [None]]:
            cases.append({"sensors": [list(c1), list(SECOND_MENU[0])], "agg": "max", "sources": "two", "srcL": 3,
                          "sensL": 3, "form": "list", "field": "H"})
    if tier == "quick":
        cases = [c for c in cases if not (len(c["sensors"]) > 1 and c["sensL"] == 1 and c["srcL"] == 1)]
        cases = [c for c in cases if not (len(c["sensors"]) == 3 and c["srcL"] == 5 and c["sources"] == "two")]
    return cases


def run(tier, seed):
    cases = enumerate_cases(tier)
    res = common.pmap(work, cases)
    viols, harness = [], []
    sig = set()
    for c, r in zip(cases, res):
        s0 = c["sensors"][0]
        sig.add((len(c["sensors"]), bool(c.get("precall")), tuple(map(tuple, c["sensors"])), c["agg"], str(c["sensL"]), c["srcL"], c["sources"], c["form"]))
        if r is None:
            continue
        if r.startswith("HARNESS"):
            harness.append(f"{c}: {r}")
            continue
        kinds = "+".join(sorted({k for _, k, _ in c["sensors"]}))
        hands = "+".join(sorted({h for _, _, h in c["sensors"]}))
        viols.append({"key": f"C04|n={len(c['sensors'])}|kinds={kinds}|hand={hands}|agg={c['agg']}|form={c['form']}{'+precall' if c.get('precall') else ''}|{r.split(' ')[0]}",
                      "what": f"{c}: {r}", "case": c, "observed": r})
    kinds_reached = {k for c in cases for _, k, _ in c["sensors"]}
    cov = {
        "evaluations": len(cases), "distinct_nontrivial": len(sig),
        "rule": "one evaluation = one getB/getH call with sensors compared element-wise with the explicit per-pixel oracle; "
                "all generated layouts are distinct (sensor tuple, agg, path lengths, sources, call form) and non-trivial "
                "(at least one pixel, rotated or translated or left-handed or aggregated sensor in all but the identity layout)",
        "samples": [cases[0], cases[len(cases) // 2], cases[-1]],
        "exhaustive": True,
        "alphabets": {"pixel": list(PIX), "path_kinds": KINDS, "handedness": HANDS, "pixel_agg": AGGS,
                      "second_sensor_menu": len(SECOND_MENU), "third_sensor_menu": len(THIRD_MENU)},
        "path_kinds_reached": sorted(kinds_reached),
    }
    harness = harness[:5]
    if kinds_reached != set(KINDS):
        harness.append("vacuous: not all sensor path kinds were generated")
    return {"coverage": cov, "violations": viols, "harness_errors": harness,
            "assumptions": ["getB(sources, ndarray of positions) is the reference for the global field (array observers "
                            "bypass all sensor pose handling; their own correctness is C01/C03/C06)"]}


def replay(case):
    r = work(case)
    return {"violated": r is not None and not str(r).startswith("HARNESS"), "observed": r}
