"""C05 - superposition: collections and sumup add fields; fields are linear in the excitation.

(a) arrangements: all ordered source lists up to length 3 (thorough 4) over an item alphabet (bare
source, collections of 1..3 sources, nested collections of depth 2 and 3, a collection mixing sources
and sensors, the same bare source twice) x observers x path lengths x sumup x field; oracle = sums of
single-leaf calls over my own flattening of `children`, one entry per top-level item, in order.
(b) histories: compute, edit a nested collection (add / remove / move a leaf), compute again.
(c) linearity in the excitation for every source class, inside and outside, scalings and sums.
"""
import itertools

import numpy as np

from mc import common

LEVEL = "exploration"
RTOL = 1e-10
ITEMS = ["S", "C1", "C2", "C3", "N2", "N3", "M", "D"]
OBS = ["p1", "p3", "sens"]


CUBE_F = [(0, 1, 3), (0, 3, 2), (4, 6, 7), (4, 7, 5), (0, 4, 5), (0, 5, 1), (2, 3, 7), (2, 7, 6), (0, 2, 6), (0, 6, 4),
          (1, 5, 7), (1, 7, 3)]
BIGCUBE_V = np.array([(x, y, z) for x in (-1, 1) for y in (-1, 1) for z in (-1, 1)], float) * 6.0


def _ff_a(field, observers):
    return np.array(observers) * 0.02 + 0.01


def _ff_b(field, observers):
    return np.array(observers) ** 2 * 0.01 - 0.005


class Factory:
    """deterministic stream of distinct leaf sources"""

    def __init__(self):
        self.i = 0

    def leaf(self):
        import magpylib as magpy
        from scipy.spatial.transform import Rotation as R

        i = self.i
        self.i += 1
        pos = (0.9 * np.cos(1.3 * i) * (1 + 0.2 * i), 0.8 * np.sin(1.1 * i) * (1 + 0.15 * i), 0.3 * i - 0.5)
        ori = R.from_rotvec((0.1 * i, -0.2, 0.05 * i))
        k = i % 12
        if k == 6:   # a partial segment and (next) a hollow full ring: evaluated in one group by two different code paths
            return magpy.magnet.CylinderSegment(dimension=(0.2, 0.5, 0.4, -30, 200), polarization=(0.1, 0.2 - 0.01 * i, 0.3), position=pos, orientation=ori)
        if k == 7:
            return magpy.magnet.CylinderSegment(dimension=(0.25, 0.45, 0.5, 0, 360), polarization=(-0.2, 0.1, 0.2 + 0.01 * i), position=pos, orientation=ori)
        if k == 0:
            return magpy.magnet.Cuboid(dimension=(0.5, 0.4, 0.3), polarization=(0.1 + 0.1 * i, 0.2, -0.3), position=pos, orientation=ori)
        if k == 1:
            return magpy.current.Circle(diameter=0.7, current=1.0 + i, position=pos, orientation=ori)
        if k in (2, 3):  # bodies sharing the identical local mesh (copies) with different polarizations; observer p1 is inside
            return magpy.magnet.TriangularMesh(vertices=BIGCUBE_V, faces=CUBE_F, polarization=(0.2 - 0.15 * i, 0.1 * i, 0.3),
                                               position=pos, orientation=ori)
        if k in (4, 5):  # custom sources with different field functions
            return magpy.misc.CustomSource(field_func=_ff_a if (k + i // 10) % 2 == 0 else _ff_b, position=pos, orientation=ori)
        if k == 8:
            return magpy.misc.Dipole(moment=(0.3, -0.1 * i, 0.2), position=pos, orientation=ori)
        if k == 9:
            return magpy.magnet.Sphere(diameter=0.5, polarization=(0.3, 0.1 * i, 0.2), position=pos, orientation=ori)
        if k == 10:
            return magpy.current.Polyline(vertices=[(0, 0, 0), (0.3, 0.1, 0), (0.3, 0.4, 0.2)], current=0.5 + i, position=pos, orientation=ori)
        return magpy.magnet.Cylinder(dimension=(0.4, 0.5), polarization=(0.2, 0.1, 0.1 * i), position=pos, orientation=ori)


def build_item(kind, fac, first_bare):
    import magpylib as magpy

    if kind == "S":
        return fac.leaf()
    if kind == "D":
        return first_bare[0] if first_bare else fac.leaf()
    if kind in ("C1", "C2", "C3"):
        return magpy.Collection(*[fac.leaf() for _ in range(int(kind[1]))], position=(0.1, 0.2, 0.3))
    if kind == "N2":
        return magpy.Collection(fac.leaf(), magpy.Collection(fac.leaf(), fac.leaf()))
    if kind == "N3":
        return magpy.Collection(magpy.Collection(magpy.Collection(fac.leaf()), fac.leaf()))
    if kind == "M":
        return magpy.Collection(fac.leaf(), magpy.Sensor(position=(5, 5, 5)), fac.leaf())
    raise AssertionError(kind)


def flatten(item):
    """my own pre-order flattening over `children`"""
    if hasattr(item, "children"):
        out = []
        for c in item.children:
            out += flatten(c)
        return out
    return [item] if hasattr(item, "field_func") or hasattr(item, "getB") and not hasattr(item, "pixel") else []


def mk_obs(kind):
    import magpylib as magpy

    if kind == "p1":
        return (0.05, 0.1, 0.15)
    if kind == "p3":
        return [(0.05, 0.1, 0.15), (2, 1, 0.5), (-1, -2, 3)]
    return magpy.Sensor(pixel=[(0, 0, 0), (0.2, 0.1, 0)], position=(0.1, -0.3, 0.2)).rotate_from_angax(30, "y")


def oracle(items, obs, field):
    import magpylib as magpy

    fn = getattr(magpy, "get" + field)
    per_item = []
    M = 1
    for it in items:
        leaves = flatten(it)
        fields = [np.atleast_2d(fn(lf, obs, squeeze=False)[0]) for lf in leaves]  # each (m_leaf, 1, npix.., 3)
        M = max([M] + [f.shape[0] for f in fields])
        per_item.append(fields)
    if hasattr(obs, "_position"):
        M = max(M, len(obs._position))
    out = []
    for fields in per_item:
        tot = 0
        for f in fields:
            idx = np.minimum(np.arange(M), f.shape[0] - 1)
            tot = tot + f[idx]
        out.append(tot)
    return np.array(out)


def compare(got, exp):
    if got.shape != exp.shape:
        return f"shape {got.shape} != expected {exp.shape}"
    sc = max(float(np.max(np.abs(exp))), 1e-300)
    err = float(np.max(np.abs(got - exp))) / sc
    if not err <= RTOL:
        idx = np.unravel_index(np.argmax(np.abs(got - exp)), got.shape)
        return f"values differ rel={err:.3g} first bad top-level entry={int(idx[0])}"
    return None


def build_list(kinds, plens):
    fac = Factory()
    items, first_bare = [], []
    for k, pl in zip(kinds, plens):
        it = build_item(k, fac, first_bare)
        if k == "S" and not first_bare:
            first_bare.append(it)
        if pl == 2 and not (k == "D" and first_bare and it is first_bare[0]):
            it.move([(0.05, 0.02, -0.03)])
            it.rotate_from_angax([20], "z", start=1)
        items.append(it)
    return items, fac


def run_arr(c):
    import magpylib as magpy

    items, fac = build_list(c["kinds"], c["plens"])
    obs = mk_obs(c["obs"])
    fn = getattr(magpy, "get" + c["field"])
    try:
        got = fn(items, obs, squeeze=False, sumup=c["sumup"])
    except Exception as e:
        return f"raised {type(e).__name__}: {e}"[:200]
    exp = oracle(items, obs, c["field"])
    if c["sumup"]:
        exp = exp.sum(axis=0, keepdims=True)
    r = compare(got, exp)
    if r:
        return r
    if c["sumup"] and c["obs"] == "sens" and not c.get("history"):
        # with a pixel aggregation, sumup=True is still the sum over the source axis of the sumup=False output
        for agg in ("max", "min", "median", "mean", "std"):
            try:
                per = fn(items, obs, squeeze=False, sumup=False, pixel_agg=agg)
                tot = fn(items, obs, squeeze=False, sumup=True, pixel_agg=agg)
            except Exception as e:
                return f"pixel_agg={agg} raised {type(e).__name__}: {e}"[:200]
            r = compare(tot, per.sum(axis=0, keepdims=True))
            if r:
                return f"sumup-with-pixel_agg={agg} " + r
    if c.get("history"):
        # edit a nested collection and compute again (stale flattenings must not survive)
        target = None
        for it in items:
            if hasattr(it, "children"):
                inner = [ch for ch in it.children if hasattr(ch, "children")]
                target = inner[0] if inner else it
                break
        if target is None:
            return None
        for step in c["history"]:
            if step == "add":
                target.add(fac.leaf())
            elif step == "remove" and len(target.sources_all) > 1:
                target.remove(target.sources_all[0])
            elif step == "move_leaf":
                target.sources_all[-1].move((0.3, 0.2, 0.1))
            elif step == "reparent" and len(items) > 1 and hasattr(items[-1], "children") and items[-1] is not target:
                leaf = target.sources_all[0]
                if len(target.sources_all) > 1:
                    items[-1].add(leaf, override_parent=True)
            try:
                got = fn(items, obs, squeeze=False, sumup=c["sumup"])
            except Exception as e:
                return f"after-{step} raised {type(e).__name__}: {e}"[:200]
            exp = oracle(items, obs, c["field"])
            if c["sumup"]:
                exp = exp.sum(axis=0, keepdims=True)
            r = compare(got, exp)
            if r:
                return f"after-{step} " + r
            # the collection method must agree too
            if hasattr(items[0], "children") and not items[0].sensors_all:
                g2 = getattr(items[0], "get" + c["field"])(obs, squeeze=False)
                e2 = oracle(items[:1], obs, c["field"])
                r = compare(g2, e2)
                if r:
                    return f"after-{step} collection-method " + r
    return None


# ------------------------------------------------------------------ linearity
def lin_sources():
    import magpylib as magpy

    tv = [(0, 0, 0), (1, 0, 0), (0, 1, 0), (0, 0, 1)]
    return {
        "Cuboid": (lambda e: magpy.magnet.Cuboid(dimension=(1, 1.2, 0.8), polarization=e), "vec"),
        "Cylinder": (lambda e: magpy.magnet.Cylinder(dimension=(1, 1.2), polarization=e), "vec"),
        "CylinderSegment": (lambda e: magpy.magnet.CylinderSegment(dimension=(0.2, 1, 1.2, -40, 250), polarization=e), "vec"),
        "Sphere": (lambda e: magpy.magnet.Sphere(diameter=1.2, polarization=e), "vec"),
        "Tetrahedron": (lambda e: magpy.magnet.Tetrahedron(vertices=[(-0.5, -0.5, -0.5), (1, -0.5, -0.5), (-0.5, 1, -0.5), (-0.5, -0.5, 1)], polarization=e), "vec"),
        "TriangularMesh": (lambda e: magpy.magnet.TriangularMesh(vertices=[(-0.5, -0.5, -0.5), (1, -0.5, -0.5), (-0.5, 1, -0.5), (-0.5, -0.5, 1)],
                                                                 faces=[(0, 2, 1), (0, 1, 3), (0, 3, 2), (1, 2, 3)], polarization=e), "vec"),
        "Triangle": (lambda e: magpy.misc.Triangle(vertices=[(0, 0, 0), (1, 0, 0), (0, 1, 0)], polarization=e), "vec"),
        "Dipole": (lambda e: magpy.misc.Dipole(moment=e), "vec"),
        "Circle": (lambda e: magpy.current.Circle(diameter=1.2, current=e), "scalar"),
        "Polyline": (lambda e: magpy.current.Polyline(vertices=[(0, 0, 0), (1, 0, 0), (1, 1, 0.5)], current=e), "scalar"),
    }


ALPHAS = [-2.0, 0.0, 0.5, 3.0, 1e-12, 1e12]
# generic vectors, axis vectors of both signs, and vectors whose components cancel exactly (also as sums of two others)
VECS = [(0.3, -0.2, 0.5), (1.0, 0, 0), (0, -0.7, 0.1), (0.2, 0.2, 0.2), (1.0, -1.0, 0), (0.3, 0, -0.3), (1.0, 1.0, -2.0), (0, -1.0, 0),
        (0, 0, 1.0), (-1.0, 0, 0)]
LIN_OBS = [(0.05, 0.06, 0.04), (0.3, 0.2, 0.1), (1.7, 0.9, -0.6), (-3, 2, 5), (0.2, 0.1, 2.5)]


def run_lin(c):
    mk, typ = lin_sources()[c["cls"]]
    field = c["field"]
    e1 = np.array(VECS[c["i"]]) if typ == "vec" else float(VECS[c["i"]][0] + 1.5)
    f1 = getattr(mk(e1), "get" + field)(LIN_OBS)
    sc = max(np.max(np.abs(f1)), 1e-300)
    if c["kind"] == "scale":
        a = c["alpha"]
        fa = getattr(mk(e1 * a), "get" + field)(LIN_OBS)
        err = np.max(np.abs(fa - a * f1)) / max(abs(a) * sc, 1e-300)
        if not err <= RTOL:
            return f"scaling alpha={a}: f(a*e) != a*f(e) rel={err:.3g}"
    else:
        e2 = np.array(VECS[c["j"]]) if typ == "vec" else float(VECS[c["j"]][1] - 2.5)
        f2 = getattr(mk(e2), "get" + field)(LIN_OBS)
        f12 = getattr(mk(e1 + e2), "get" + field)(LIN_OBS)
        err = np.max(np.abs(f12 - f1 - f2)) / max(sc, np.max(np.abs(f2)))
        if not err <= RTOL:
            return f"additivity: f(e1+e2) != f(e1)+f(e2) rel={err:.3g}"
    return None


ROUTE_OPS_VEC = ["set_pol", "set_mag", "copy_pol", "copy_mag"]
ROUTE_OPS_OTHER = ["set", "copy"]
ROUTE_INIT_VEC = ["ctor_pol", "ctor_mag", "bare"]
ROUTE_INIT_OTHER = ["ctor", "bare"]
MU0_SETTER = 4 * np.pi * 1e-7   # the conversion the attribute setters document (magnetization <-> polarization)
RTOL_ROUTE = 1e-9               # covers the 1.3e-10 difference between this constant and scipy's mu_0 (known C02 finding)


def route_cases(cls):
    typ = lin_sources()[cls][1]
    magnet = typ == "vec" and cls != "Dipole"
    inits = ROUTE_INIT_VEC if magnet else ROUTE_INIT_OTHER
    ops = ROUTE_OPS_VEC if magnet else ROUTE_OPS_OTHER
    out = []
    for init in inits:
        for n in (1, 2):
            for word in itertools.product(ops, repeat=n):
                for ev in (False, True):
                    for wrap in ("plain", "child"):
                        out.append({"init": init, "word": list(word), "eval_between": ev, "wrap": wrap})
    return out


def run_route(c):
    """the excitation reached through a history of constructor forms, attribute setters and copy(...) overrides - with or
    without a field evaluation between the steps, alone or as a child of a collection - must give the field of a body that was
    constructed with that excitation directly (f is a function of the CURRENT excitation only; no earlier value may survive in
    derived or cached state)"""
    import magpylib as magpy

    mk, typ = lin_sources()[c["cls"]]
    field = c["field"]
    magnet = typ == "vec" and c["cls"] != "Dipole"
    attr = "polarization" if magnet else ("moment" if c["cls"] == "Dipole" else "current")
    vals = [np.array(VECS[0]), np.array(VECS[2]), np.array(VECS[6])] if typ == "vec" else [2.5, -0.75, 4.0]
    base = mk(vals[0])
    geo = {k: getattr(base, k) for k in ("dimension", "diameter", "vertices", "faces") if getattr(base, k, None) is not None}
    cls = type(base)
    if c["init"] in ("ctor_pol", "ctor"):
        o = base
    elif c["init"] == "ctor_mag":
        o = cls(magnetization=vals[0] / MU0_SETTER, **geo)
    else:
        o = cls(**geo)
    final = vals[0] if c["init"] != "bare" else None

    def ev(x):
        if c["eval_between"] and final is not None:
            getattr(x, "get" + field)(LIN_OBS)

    import warnings
    with warnings.catch_warnings():
        warnings.simplefilter("ignore")
        for k, op in enumerate(c["word"]):
            ev(o)
            v = vals[1] if k < len(c["word"]) - 1 else vals[2]
            if op in ("set_pol", "set"):
                setattr(o, attr, v)
            elif op == "set_mag":
                o.magnetization = v / MU0_SETTER
            elif op in ("copy_pol", "copy"):
                o = o.copy(**{attr: v})
            elif op == "copy_mag":
                o = o.copy(magnetization=v / MU0_SETTER)
            final = v
        tgt = magpy.Collection(magpy.current.Circle(diameter=3, current=0.0), o) if c["wrap"] == "child" else o
        got = np.asarray(getattr(tgt, "get" + field)(LIN_OBS))
        exp = np.asarray(getattr(mk(final), "get" + field)(LIN_OBS))
    sc = max(float(np.max(np.abs(exp))), 1e-300)
    err = float(np.max(np.abs(got - exp))) / sc
    if not err <= RTOL_ROUTE:
        return f"route {c['init']}>{'>'.join(c['word'])}: field is not that of a body constructed with the final excitation rel={err:.3g}"
    # the attribute pair itself must describe the final excitation
    if magnet:
        p, m = np.asarray(o.polarization, float), np.asarray(o.magnetization, float)
        if np.max(np.abs(p - final)) > 1e-12 * np.max(np.abs(final)) or np.max(np.abs(m * MU0_SETTER - final)) > 1e-12 * np.max(np.abs(final)):
            return f"route {c['init']}>{'>'.join(c['word'])}: attributes polarization={p.tolist()} magnetization*mu0={(m * MU0_SETTER).tolist()} are not the final excitation {final.tolist()}"
    return None


SHOW2D_ARR = [("S",), ("S", "S"), ("C2",), ("N2",), ("N3",), ("C2", "S"), ("S", "N2"), ("C1", "C2"), ("M",), ("N2", "S"), ("N3", "C2")]


def run_show2d(c):
    """the sensor-output plot of show(..., output=..., sumup=True) draws, per sensor, the field of ALL displayed sources summed
    once: the same numbers as getB(objects, sensor, sumup=True)"""
    import magpylib as magpy

    items, fac = build_list(c["kinds"], [1] * len(c["kinds"]))
    if c.get("show_sub"):
        # only a sub-collection of the first item is displayed (its parent is not), next to the remaining items
        subs = [ch for ch in items[0].children if hasattr(ch, "children")]
        items = [subs[0]] + items[1:]
    npath = 4
    sens = magpy.Sensor(position=np.linspace((-1.0, 0.3, 2.0), (3.0, -0.2, 2.5), npath), style_label="probe")
    out = c["output"]
    comp = "xyz".index(out[1])
    want = np.asarray(getattr(magpy, "get" + out[0])(items, sens, sumup=True, squeeze=False))[0, :, 0, 0, comp]
    with common.time_limit(60):
        fig = magpy.show(*items, sens, output=out, sumup=True, backend="plotly", return_fig=True)
    lines = [np.asarray(t.y, float) for t in fig.data if t.type == "scatter" and t.y is not None and len(t.y) == npath
             and "probe" in ((t.name or "") + (t.legendgrouptitle.text or "" if t.legendgrouptitle else "") + (t.legendgroup or ""))]
    if len(lines) != 1:
        return f"show2d: {len(lines)} curves of the path length instead of one summed curve"
    sc = max(float(np.max(np.abs(want))), 1e-300)
    err = float(np.max(np.abs(lines[0] - want))) / sc
    if not err <= 1e-9:
        ratio = float(np.median(lines[0][np.abs(want) > 0.1 * sc] / want[np.abs(want) > 0.1 * sc])) if np.any(np.abs(want) > 0.1 * sc) else float("nan")
        return f"show2d: summed curve differs from getB(..., sumup=True) rel={err:.3g} (median ratio {ratio:.3g})"
    return None


def run_singular(c):
    """observers at points where ONE source of the list has no finite field (Dipole position, Triangle / Tetrahedron vertex):
    the sum over sources is then not finite either - sumup and collections must not hide it"""
    import magpylib as magpy

    dip = magpy.misc.Dipole(moment=(0.3, -0.2, 0.7), position=(0.4, 0.1, -0.2))
    tri = magpy.misc.Triangle(vertices=[(0, 0, 0), (1, 0, 0), (0, 1, 0)], polarization=(0.2, -0.3, 0.9), position=(2, 0, 0))
    tet = magpy.magnet.Tetrahedron(vertices=[(0, 0, 0), (1, 0, 0), (0, 1, 0), (0, 0, 1)], polarization=(0.2, -0.3, 0.9), position=(-2, 1, 0))
    cub = magpy.magnet.Cuboid(dimension=(0.5, 0.4, 0.3), polarization=(0.1, 0.2, -0.3), position=(0, 2, 1))
    srcs = {"dip": dip, "tri": tri, "tet": tet, "cub": cub}
    lst = [srcs[k] for k in c["order"]]
    obs = np.array([(0.4, 0.1, -0.2), (2.0, 0.0, 0.0), (3.0, 0.0, 0.0), (-2.0, 1.0, 0.0), (0.7, 0.6, 0.5)])
    fn = getattr(magpy, "get" + c["field"])
    with np.errstate(all="ignore"):
        per = np.asarray(fn(lst, obs, squeeze=False))
        want = per.sum(axis=0, keepdims=True)
        if c["form"] == "sumup":
            got = np.asarray(fn(lst, obs, squeeze=False, sumup=True))
        elif c["form"] == "sens_sumup":
            got = np.asarray(getattr(magpy.Sensor(pixel=obs), "get" + c["field"])(*lst, squeeze=False, sumup=True))
            want = want.reshape(got.shape)
        else:
            got = np.asarray(fn(magpy.Collection(*[s.copy() for s in lst]), obs, squeeze=False))
    if got.shape != want.shape:
        return f"shape {got.shape} != {want.shape}"
    fin_w, fin_g = np.isfinite(want), np.isfinite(got)
    if not np.array_equal(fin_w, fin_g):
        k = np.argwhere(fin_w != fin_g)[0]
        return f"non-finite entries of the summed field hidden or invented at observer {int(k[3])}: sum of sources {want[tuple(k)]}, returned {got[tuple(k)]}"
    sc = np.max(np.abs(want[fin_w])) if fin_w.any() else 1.0
    if fin_w.any() and np.max(np.abs(got[fin_w] - want[fin_w])) > RTOL * sc:
        return "finite entries differ from the sum of sources"
    return None


def work(c):
    try:
        if c["part"] == "sing":
            return run_singular(c)
        if c["part"] == "show2d":
            return run_show2d(c)
        if c["part"] == "lin" and c["kind"] == "route":
            return run_route(c)
        return run_arr(c) if c["part"] == "arr" else run_lin(c)
    except Exception as e:
        import traceback

        return "HARNESS " + f"{type(e).__name__}: {e} {traceback.format_exc()[-300:]}"


def enumerate_cases(tier):
    cases = []
    maxlen = 3 if tier == "quick" else 4
    for n in range(1, maxlen + 1):
        for kinds in itertools.product(ITEMS, repeat=n):
            if kinds[0] == "D" or ("D" in kinds and "S" not in kinds[:kinds.index("D")]):
                continue
            plen_opts = [tuple([1] * n), tuple(2 if i % 2 == 0 else 1 for i in range(n)), tuple(1 if i % 2 == 0 else 2 for i in range(n))]
            for plens in (plen_opts if n > 1 else [(1,), (2,)]):
                for obs in (OBS if n <= 3 else ["p3"]):
                    for sumup in (False, True):
                        for field in (("B", "H") if n <= 2 else ("B",)):
                            cases.append({"part": "arr", "kinds": list(kinds), "plens": list(plens), "obs": obs,
                                          "sumup": sumup, "field": field})
    # histories on arrangements with nested collections
    for kinds in [("N2",), ("N3",), ("N2", "C2"), ("C2", "N2", "S"), ("S", "N3", "C3"), ("M", "N2"), ("C3", "C2", "S")]:
        for hist in itertools.permutations(["add", "remove", "move_leaf", "reparent"], 2 if tier == "quick" else 3):
            for sumup in (False, True):
                cases.append({"part": "arr", "kinds": list(kinds), "plens": [1] * len(kinds), "obs": "p3", "sumup": sumup,
                              "field": "B", "history": list(hist)})
    for order in itertools.permutations(["dip", "tri", "tet", "cub"]):
        for form in ("sumup", "sens_sumup", "collection"):
            for field in ("B", "H"):
                cases.append({"part": "sing", "order": list(order), "form": form, "field": field})
    for kinds in SHOW2D_ARR:
        for out in ("Bx", "Hz", "By"):
            cases.append({"part": "show2d", "kinds": list(kinds), "output": out})
            if kinds[0] in ("N2", "N3"):
                cases.append({"part": "show2d", "kinds": list(kinds), "output": out, "show_sub": True})
    for cls in lin_sources():
        for field in ("B", "H"):
            for i in range(len(VECS)):
                for a in ALPHAS:
                    cases.append({"part": "lin", "kind": "scale", "cls": cls, "field": field, "i": i, "alpha": a})
                for j in range(len(VECS)):
                    if j != i:
                        cases.append({"part": "lin", "kind": "add", "cls": cls, "field": field, "i": i, "j": j})
            for rc in route_cases(cls):
                cases.append({"part": "lin", "kind": "route", "cls": cls, "field": field, **rc})
    return cases


def vkey(c, r):
    if c["part"] == "show2d":
        ncoll = sum(1 for k in c["kinds"] if k != "S")
        return f"C05|show2d|{'collections' if ncoll else 'bare-sources'}|{r.split(' ')[1] if len(r.split(' ')) > 1 else 'differs'}"
    if c["part"] == "sing":
        return f"C05|singular-observer|{c['form']}|{c['field']}|{r.split(' ')[0]}"
    if c["part"] == "lin":
        if c["kind"] == "route":
            return f"C05|excitation-route|{c['cls']}|{c['field']}|{c['init']}>{'>'.join(c['word'])}|{c['wrap']}"
        return f"C05|linearity|{c['cls']}|{c['field']}|{c['kind']}" + (f"|alpha={c['alpha']}" if c["kind"] == "scale" else "")
    ncoll = sum(1 for k in c["kinds"] if k != "S" and k != "D")
    h = "history" if c.get("history") else "static"
    return f"C05|arrangement|{h}|len={len(c['kinds'])}|collections={ncoll}|sumup={c['sumup']}|{r.split(' ')[0]}"


def run(tier, seed):
    cases = enumerate_cases(tier)
    res = common.pmap(work, cases)
    viols, harness = [], []
    for c, r in zip(cases, res):
        if r is None:
            continue
        if r.startswith("HARNESS"):
            harness.append(f"{c}: {r}")
            continue
        viols.append({"key": vkey(c, r), "what": f"{c}: {r}", "case": c, "observed": r})
    narr = sum(1 for c in cases if c["part"] == "arr")
    nontriv = sum(1 for c in cases if c["part"] in ("lin", "sing", "show2d") or len(c["kinds"]) > 1 or c["kinds"][0] != "S")
    cov = {
        "evaluations": len(cases), "distinct_nontrivial": nontriv,
        "rule": "arrangement cases are all ordered item lists (distinct by construction) compared with sums of single-leaf "
                "calls; non-trivial = at least one collection or more than one item; linearity cases = class x field x "
                "excitation x (6 scalings | 3 partner excitations)",
        "samples": [cases[5], cases[narr // 2], cases[-1]],
        "exhaustive": True, "arrangement_cases": narr, "linearity_cases": len(cases) - narr,
        "item_alphabet": ITEMS,
    }
    return {"coverage": cov, "violations": viols, "harness_errors": harness[:5],
            "assumptions": ["single-source calls are the reference for a leaf's field (their correctness is C01/C06)"]}


def replay(case):
    r = work(case)
    return {"violated": r is not None and not str(r).startswith("HARNESS"), "observed": r}
