"""C06 - each output element depends only on its own source, path index and observer.

Grid explorer. (i) call composition: all source lists up to length 2 (thorough 3) over 10 concrete
sources (several of one class with different vertex / face counts), all orders incl. duplicates x
per-object path length x observer forms x field x squeeze; element (l,m,k,pix) must equal the static
single-object evaluation of source l at its pose min(m, len-1) at that one pixel.
(ii) batch sweep: n = 1..20 rows from a row alphabet (all cyclic rotations) for the cores that switch
algorithm with the batch size or look at neighbouring rows; each row must equal its evaluation alone.
"""
import itertools

import numpy as np

from mc import common

LEVEL = "exploration"
RTOL = 1e-10

SRC = ["pol2", "pol3", "pol3b", "pol5", "meshT", "meshC", "meshC2", "meshC3", "meshC4", "tet", "cub", "seg", "ring", "circ", "cyl", "cyl2", "cusA", "cusB"]
OBS = ["p1", "p2", "s2", "pin", "srot"]
FIELDS = ["B", "H", "J"]

CUBE_V = np.array([(x, y, z) for x in (-1, 1) for y in (-1, 1) for z in (-1, 1)], float) * 0.5
CUBE_F = [(0, 1, 3), (0, 3, 2), (4, 6, 7), (4, 7, 5), (0, 4, 5), (0, 5, 1), (2, 3, 7), (2, 7, 6), (0, 2, 6), (0, 6, 4),
          (1, 5, 7), (1, 7, 3)]


def _ff_a(field, observers):
    return None if field not in "BH" else np.array(observers) * 2.0 + 1.0


def _ff_b(field, observers):
    return None if field not in "BH" else np.array(observers) ** 2 - 0.5


def pose(j):
    from scipy.spatial.transform import Rotation as R

    return np.array((0.11 * j, -0.07 * j, 0.05 * j)), R.from_rotvec((0.2 * j + 0.1, 0.1, -0.15 * j))


def mk(kind, plen=None, at=None):
    """source of `kind` with a path of length plen, or static at pose index `at`"""
    import magpylib as magpy
    from scipy.spatial.transform import Rotation as R

    if at is not None:
        p, r = pose(at)
        kw = dict(position=p, orientation=r)
    else:
        ps = np.array([pose(j)[0] for j in range(plen)])
        rs = R.from_rotvec([pose(j)[1].as_rotvec() for j in range(plen)])
        kw = dict(position=ps if plen > 1 else ps[0], orientation=rs if plen > 1 else rs[0])
    pol = (0.2, -0.3, 0.9)
    if kind == "pol3b":  # same vertex count as pol3, other geometry and current
        return magpy.current.Polyline(vertices=[(0.5, 0.5, -0.4), (-0.6, 0.2, 0.3), (0.1, -0.7, 0.6)], current=-4.0, **kw)
    if kind == "cusA":
        return magpy.misc.CustomSource(field_func=_ff_a, **kw)
    if kind == "cusB":
        return magpy.misc.CustomSource(field_func=_ff_b, **kw)
    if kind == "meshC3":  # same face count as meshC and equal y/z coordinates
        return magpy.magnet.TriangularMesh(vertices=CUBE_V * np.array((3.0, 1, 1)) + (1.2, 0, 0), faces=CUBE_F,
                                           polarization=(-0.3, 0.4, 0.6), **kw)
    if kind.startswith("pol"):
        n = int(kind[3:])
        verts = [(np.cos(t) * 0.8, np.sin(t) * 0.6, 0.1 * i) for i, t in enumerate(np.linspace(0, 4, n))]
        return magpy.current.Polyline(vertices=verts, current=1.5 + n, **kw)
    if kind == "meshT":
        v = [(-0.4, -0.3, -0.3), (0.8, -0.3, -0.3), (-0.3, 0.9, -0.3), (-0.3, -0.3, 1.0)]
        f = [(0, 2, 1), (0, 1, 3), (0, 3, 2), (1, 2, 3)]
        return magpy.magnet.TriangularMesh(vertices=v, faces=f, polarization=pol, **kw)
    if kind == "meshC":
        return magpy.magnet.TriangularMesh(vertices=CUBE_V, faces=CUBE_F, polarization=pol, **kw)
    if kind == "meshC4":  # the identical local mesh as meshC (a copy of the body) with another polarization
        return magpy.magnet.TriangularMesh(vertices=CUBE_V, faces=CUBE_F, polarization=(-0.7, 0.1, 0.4), **kw)
    if kind == "meshC2":
        return magpy.magnet.TriangularMesh(vertices=CUBE_V * np.array((2.6, 0.5, 0.6)) + (0.9, 0, 0), faces=CUBE_F,
                                           polarization=(0.5, 0.5, -0.2), **kw)
    if kind == "tet":
        return magpy.magnet.Tetrahedron(vertices=[(-0.5, -0.4, -0.3), (0.9, -0.3, -0.4), (-0.2, 0.8, -0.3), (0, 0, 0.9)],
                                        polarization=pol, **kw)
    if kind == "cub":
        return magpy.magnet.Cuboid(dimension=(1.2, 0.8, 1.0), polarization=pol, **kw)
    if kind == "seg":
        return magpy.magnet.CylinderSegment(dimension=(0.3, 0.9, 1.1, -30, 200), polarization=pol, **kw)
    if kind == "ring":  # full hollow ring: evaluated by the two-cylinder shortcut, grouped with partial segments of the call
        return magpy.magnet.CylinderSegment(dimension=(0.35, 0.8, 1.3, 0, 360), polarization=(-0.4, 0.3, 0.5), **kw)
    if kind == "cyl2":
        return magpy.magnet.Cylinder(dimension=(0.7, 1.6), polarization=(0.6, 0.1, -0.3), **kw)
    if kind == "circ":
        return magpy.current.Circle(diameter=1.3, current=2.5, **kw)
    if kind == "cyl":
        return magpy.magnet.Cylinder(dimension=(1.1, 0.9), polarization=pol, **kw)
    raise AssertionError(kind)


PTS = {"p1": [(0.13, 0.06, 0.11)], "p2": [(0.13, 0.06, 0.11), (2.1, 1.2, 0.4)], "pin": [(1.7, 0.02, 0.03)]}


def mk_obs(kind):
    import magpylib as magpy

    if kind == "p1":
        return np.array(PTS["p1"][0]), [np.array(PTS["p1"])]
    if kind == "pin":  # a single point inside meshC2 only
        return np.array(PTS["pin"][0]), [np.array(PTS["pin"])]
    if kind == "p2":
        return np.array(PTS["p2"]), [np.array(PTS["p2"])]
    if kind == "srot":  # two sensors with rotating paths (one returns to its first orientation, one +a/-a)
        from scipy.spatial.transform import Rotation as R

        s1 = magpy.Sensor(pixel=[(0.0, 0, 0), (0.3, 0.1, -0.2)], position=[(0.1, 0.1, 0.1)] * 3,
                          orientation=R.from_rotvec([(0, 0, 0), (0, 0.5, 0), (0, 0, 0)]))
        s2 = magpy.Sensor(pixel=[(0.0, 0, 0), (0, 0.4, 0)], position=[(1.5, -0.2, 0.7), (1.4, -0.2, 0.7)],
                          orientation=R.from_rotvec([(0, 0, -0.6), (0, 0, 0.6)]), handedness="left")
        return [s1, s2], "sensors"
    if kind == "s2":
        s1 = magpy.Sensor(pixel=[(0.0, 0, 0), (0.3, 0.1, -0.2)], position=(0.1, 0.1, 0.1))
        s2 = magpy.Sensor(pixel=[(0.0, 0, 0), (0, 0.4, 0)], position=(1.5, -0.2, 0.7))
        return [s1, s2], [np.array(s1.pixel) + s1.position, np.array(s2.pixel) + s2.position]
    raise AssertionError(kind)


_CACHE = {}


def static_field(kind, j, pts_key, pts, field):
    import magpylib as magpy

    key = (kind, j, pts_key, field)
    if key not in _CACHE:
        src = mk(kind, at=j)
        out = np.empty((len(pts), 3))
        for i, p in enumerate(pts):  # one observer at a time: the element-by-element evaluation
            out[i] = getattr(magpy, "get" + field)(src, np.array(p))
        _CACHE[key] = out
    return _CACHE[key]


def run_compose(c):
    import magpylib as magpy

    srcs = [mk(k, plen=pl) for k, pl in c["srcs"]]
    if c.get("alias_dups"):
        seen = {}
        srcs = [seen.setdefault((k, pl), s) for (k, pl), s in zip(map(tuple, c["srcs"]), srcs)]
    obs, groups = mk_obs(c["obs"])
    field = c["field"]
    try:
        got = getattr(magpy, "get" + field)(srcs, obs, squeeze=False)
        got_sq = getattr(magpy, "get" + field)(srcs, obs, squeeze=True) if c.get("squeeze_too") else None
    except Exception as e:
        return f"raised {type(e).__name__}: {e}"[:200]
    if groups == "sensors":
        return compose_with_sensor_paths(c, srcs, obs, got)
    M = max(pl for _, pl in c["srcs"])
    npix = len(groups[0])
    shape = (len(srcs), M, len(groups), npix, 3) if c["obs"] in ("s2", "p2") else (len(srcs), M, 1, 1, 3)
    if c["obs"] == "p2":
        shape = (len(srcs), M, 1, 2, 3)
    if got.shape != shape:
        return f"shape {got.shape} != expected {shape}"
    exp = np.empty(shape)
    for l, (k, pl) in enumerate(c["srcs"]):
        for m in range(M):
            for g, pts in enumerate(groups):
                exp[l, m, g] = static_field(k, min(m, pl - 1), f"{c['obs']}{g}", pts, field)
    scale = np.max(np.abs(exp), axis=(1, 2, 3, 4), keepdims=True)
    scale = np.where(scale == 0, 1.0, scale)
    tol = RTOL  # J = R*polarization is rotated per batch, so last-bit differences are legitimate
    err = np.abs(got - exp) / scale
    if not np.all(err <= tol):
        idx = np.unravel_index(np.nanargmax(np.where(np.isnan(err), np.inf, err)), err.shape)
        return (f"element differs rel={err[idx]:.3g} at (l,m,k,pix,xyz)={tuple(int(i) for i in idx)} "
                f"source={c['srcs'][idx[0]][0]} got={got[idx]:.6g} exp={exp[idx]:.6g}")
    if got_sq is not None:
        if got_sq.shape != np.squeeze(exp).shape or not np.array_equal(got_sq, np.squeeze(got)):
            return f"squeeze=True is not np.squeeze of the full result: {got_sq.shape}"
    return None


def compose_with_sensor_paths(c, srcs, sensors, got):
    """element (l,m,k) = static source l at pose min(m,.) seen by a static copy of sensor k at its pose min(m,.)"""
    import magpylib as magpy

    field = c["field"]
    M = max([pl for _, pl in c["srcs"]] + [len(s._position) for s in sensors])
    shape = (len(srcs), M, len(sensors), 2, 3)
    if got.shape != shape:
        return f"shape {got.shape} != expected {shape}"
    exp = np.empty(shape)
    for l, (k, pl) in enumerate(c["srcs"]):
        for m in range(M):
            src = mk(k, at=min(m, pl - 1))
            for si, s in enumerate(sensors):
                ms = min(m, len(s._position) - 1)
                key = (k, min(m, pl - 1), "srot", si, ms, field)
                if key not in _CACHE:
                    stat = magpy.Sensor(pixel=s.pixel, position=s._position[ms], orientation=s._orientation[ms],
                                        handedness=s.handedness)
                    _CACHE[key] = getattr(magpy, "get" + field)(src, stat)
                exp[l, m, si] = _CACHE[key]
    scale = np.max(np.abs(exp), axis=(1, 2, 3, 4), keepdims=True)
    scale = np.where(scale == 0, 1.0, scale)
    err = np.abs(got - exp) / scale
    if not np.all(err <= RTOL):
        idx = np.unravel_index(np.nanargmax(np.where(np.isnan(err), np.inf, err)), err.shape)
        return (f"element differs rel={err[idx]:.3g} at (l,m,k,pix,xyz)={tuple(int(i) for i in idx)} "
                f"source={c['srcs'][idx[0]][0]} got={got[idx]:.6g} exp={exp[idx]:.6g}")
    return None


# ------------------------------------------------------------------ (ii) batch sweeps
def batch_rows(kind):
    """row alphabets in the source's local frame (source static at identity)"""
    if kind == "cyl":  # d=1.1 -> r0=0.55, h=0.9
        r0, z0 = 0.55, 0.45
        return [(0.2, 0.1, 0.1), (r0, 0, 0.9), (0, 0, 1.3), (0.05 * r0 * 0.98, 0, 0.7), (0.05 * r0 * 1.02, 0, -0.7),
                (1.4, -0.6, 0.2), (0, r0, -1.1), (30.0, 10, 5)]
    if kind == "ring":  # full hollow ring: evaluated by the two-cylinder shortcut, grouped with partial segments of the call
        return magpy.magnet.CylinderSegment(dimension=(0.35, 0.8, 1.3, 0, 360), polarization=(-0.4, 0.3, 0.5), **kw)
    if kind == "cyl2":
        return magpy.magnet.Cylinder(dimension=(0.7, 1.6), polarization=(0.6, 0.1, -0.3), **kw)
    if kind == "circ":  # d=1.3
        r0 = 0.65
        return [(0.2, 0.1, 0.1), (0, 0, 0.5), (r0, 0, 0.4), (1.4, -0.6, 0.2), (0.03, 0, 0), (30.0, 10, 5), (0, 0, 0)]
    if kind == "seg":  # (0.3, 0.9, 1.1, -30, 200)
        c, s = np.cos(np.deg2rad(40)), np.sin(np.deg2rad(40))
        o1, o2 = np.deg2rad(-30 + 180), np.deg2rad(200 - 180)   # exactly opposite the phi1 / phi2 cut planes
        return [(0.6 * c, 0.6 * s, 0.1), (0.9 * c, 0.9 * s, 0.2), (0.6 * c, 0.6 * s, 0.55), (0.3 * c, 0.3 * s, 0.0),
                (1.4, -0.6, 0.2), (0, 0, 0.3), (0.1, 0.05, 0.9), (2.0, 2.0, 2.0),
                (1.7 * np.cos(o1), 1.7 * np.sin(o1), 0.4), (1.7 * np.cos(o2), 1.7 * np.sin(o2), 0.4), (-3.0, 0.0, 0.4)]
    if kind == "cub":
        return [(0.1, 0.1, 0.1), (0.6, 0.0, 0.0), (0.6, 0.4, 0.5), (1.4, -0.6, 0.2), (0.6, 0.4, 0.1), (3, 3, 3)]
    if kind == "meshC":
        return [(0.1, 0.1, 0.1), (0.7, 0.0, 0.0), (0.2, 0.3, 0.45), (1.4, -0.6, 0.2), (-0.3, 0.4, -0.2), (3, 3, 3)]
    if kind == "pol3":
        return [(0.1, 0.1, 0.1), (0.7, 0.0, 0.0), (0.2, 0.3, 0.45), (1.4, -0.6, 0.2), (3, 3, 3), (0.8, 0, 0)]
    raise AssertionError(kind)


def run_batch(c):
    import magpylib as magpy

    kind, n, rot, field = c["kind"], c["n"], c["rot"], c["field"]
    src = mk(kind, at=0)
    src.position, src.orientation = (0, 0, 0), None
    rows = batch_rows(kind)
    rows = rows[rot:] + rows[:rot]
    obs = np.array([rows[i % len(rows)] for i in range(n)], float)
    fn = getattr(magpy, "get" + field)
    try:
        with common.time_limit(30):
            got = fn(src, obs).reshape(n, 3)
    except Exception as e:
        return f"raised {type(e).__name__}: {e}"[:200]
    for i in range(n):
        key = ("batch", kind, tuple(obs[i]), field)
        if key not in _CACHE:
            with common.time_limit(30):
                _CACHE[key] = fn(src, obs[i]).reshape(3)
        e = _CACHE[key]
        g = got[i]
        if np.array_equal(np.isnan(g), np.isnan(e)) and np.array_equal(np.isinf(g), np.isinf(e)):
            fin = np.isfinite(e)
            sc = max(np.max(np.abs(e[fin])) if fin.any() else 0.0, 1e-300)
            tol = RTOL
            if np.all(np.abs(g[fin] - e[fin]) <= tol * sc):
                continue
        return f"row differs in batch n={n} row={i} obs={tuple(obs[i])} batch={g.tolist()} alone={e.tolist()}"
    return None


def mesh_sequence_case(c):
    """several meshes (same face count, different geometry) x 1..2 observers: per-row mesh grouping"""
    return run_compose(c)


# ------------------------------------------------------------------ (iii) earlier calls leave nothing behind
MUTATIONS = ["move_path", "rotate_path", "set_position", "set_orientation", "set_excitation", "set_geometry", "into_collection",
             "reset_path", "reorient"]


def mutate(o, name):
    """deterministic edit of an object through the public API; returns the object to evaluate"""
    import magpylib as magpy
    from scipy.spatial.transform import Rotation as R

    if name == "move_path":
        o.move([(0.1, 0.0, 0.05), (0.2, 0.1, 0.0)])
    elif name == "rotate_path":
        o.rotate_from_angax([20, 40], (1, 1, 0), anchor=(0.5, 0, 0))
    elif name == "set_position":
        o.position = [(0.1, 0.2, 0.3), (0.3, -0.1, 0.2), (0.5, 0.0, 0.1)]
    elif name == "set_orientation":
        o.orientation = R.from_rotvec([(0.1, 0.2, 0.3), (-0.3, 0.1, 0.4)])
    elif name == "set_excitation":
        for a in ("polarization", "current", "moment"):
            if getattr(o, a, None) is not None:
                setattr(o, a, np.array(getattr(o, a), float) * -1.5)
                break
        else:
            if hasattr(o, "field_func"):
                o.field_func = _ff_b if o.field_func is _ff_a else _ff_a
    elif name == "set_geometry":
        for a in ("dimension", "diameter", "vertices"):
            if getattr(o, a, None) is not None and type(o).__name__ != "TriangularMesh":
                v = np.array(getattr(o, a), float)
                if a == "dimension" and type(o).__name__ == "CylinderSegment":
                    v = v * (1.2, 1.2, 1.2, 1, 1)
                else:
                    v = v * 1.2
                setattr(o, a, v if v.ndim else float(v))
                break
    elif name == "into_collection":
        c = magpy.Collection(o)
        c.move((0.2, 0.1, -0.1)).rotate_from_angax(35, (0, 1, 1))
    elif name == "reset_path":
        o.reset_path()
    elif name == "reorient":
        if hasattr(o, "reorient_faces"):
            o.reorient_faces(mode="ignore")
    return o


def run_stale(c):
    """compute, edit the object, compute again: the second result must be that of an object that was edited without ever
    having been evaluated (caches filled by the first call must not survive the edit)"""
    import magpylib as magpy

    obs, _ = mk_obs(c["obs"])
    field = c["field"]
    fn = getattr(magpy, "get" + field)
    a = mk(c["kind"], at=1)
    try:
        fn(a, obs)
        for mu in c["muts"]:
            mutate(a, mu)
            fn(a, obs)
        got = np.asarray(fn(a, obs, squeeze=False))
    except Exception as e:
        return f"raised {type(e).__name__}: {e}"[:200]
    b = mk(c["kind"], at=1)
    for mu in c["muts"]:
        mutate(b, mu)
    exp = np.asarray(fn(b, obs, squeeze=False))
    if got.shape != exp.shape:
        return f"shape {got.shape} != {exp.shape} of the never-evaluated twin"
    sc = max(float(np.max(np.abs(exp))), 1e-300)
    err = float(np.max(np.abs(got - exp))) / sc
    return None if err <= RTOL else f"element differs rel={err:.3g} from the never-evaluated twin after {c['muts']}"


def run_big(c):
    """calls whose internal row count passes the sizes at which an implementation would start to work in blocks (1e6 rows,
    2^19 row x face pairs): several sources of one class with many observers; every row equals the source alone"""
    import magpylib as magpy

    rng = np.arange(c["nobs"], dtype=float)
    obs = np.c_[0.9 + 0.37 * np.sin(rng * 0.618), -0.4 + 0.55 * np.cos(rng * 0.414), 0.6 + 0.5 * np.sin(rng * 0.271)] * 2.5
    srcs = [mk(k, at=i) for i, k in enumerate(c["kinds"])]
    fn = getattr(magpy, "get" + c["field"])
    got = np.asarray(fn(srcs, obs))
    for i, s_ in enumerate(srcs):
        one = np.asarray(fn(mk(c["kinds"][i], at=i), obs))
        sc = max(float(np.max(np.abs(one))), 1e-300)
        err = float(np.max(np.abs(got[i] - one))) / sc
        if not err <= 1e-9:
            k = int(np.argmax(np.max(np.abs(got[i] - one), axis=1)))
            return f"element differs rel={err:.3g} source={c['kinds'][i]} (entry {i}) first bad observer row {k} of {c['nobs']}"
    tot = np.asarray(fn(srcs, obs, sumup=True))
    if float(np.max(np.abs(tot - got.sum(axis=0)))) > 1e-9 * float(np.max(np.abs(got))):
        return "element sumup differs from the sum of the rows"
    return None


def work(c):
    try:
        if c["part"] == "big":
            return run_big(c)
        if c["part"] == "stale":
            return run_stale(c)
        if c["part"] == "compose":
            return run_compose(c)
        return run_batch(c)
    except Exception as e:
        import traceback

        return "HARNESS " + f"{type(e).__name__}: {e} {traceback.format_exc()[-300:]}"


def enumerate_cases(tier):
    cases = []
    # large calls: 3 x 350 000 rows of one class; 2-3 meshes of equal face count x 45 000 observers (> 2^19 row-face pairs)
    cases.append({"part": "big", "kinds": ["circ", "circ", "circ"], "nobs": 350000, "field": "H"})
    cases.append({"part": "big", "kinds": ["cub", "cub", "cub", "cub"], "nobs": 260000, "field": "B"})
    cases.append({"part": "big", "kinds": ["meshC", "meshC3"], "nobs": 45000, "field": "B"})
    cases.append({"part": "big", "kinds": ["meshC4", "meshC2", "meshC"], "nobs": 30000, "field": "H"})
    maxlen = 2 if tier == "quick" else 3
    plens = [1, 2, 3]
    for n in range(1, maxlen + 1):
        pool = SRC if n < 3 else ["pol3", "pol5", "meshC", "meshC2", "cub", "seg"]
        for ks in itertools.product(pool, repeat=n):
            for pls in itertools.product(plens if n < 3 else [1, 3], repeat=n):
                for obs in OBS:
                    if n == 3 and obs in ("s2", "srot"):
                        continue
                    for field in FIELDS:
                        if field == "J" and ((obs in ("s2", "srot") and n > 1) or any(k.startswith("cus") for k in ks)):
                            continue
                        cases.append({"part": "compose", "srcs": [list(x) for x in zip(ks, pls)], "obs": obs, "field": field,
                                      "squeeze_too": obs in ("p1", "s2")})
    # mesh sequences of length <= 4 over three meshes with one or two observers
    for n in (2, 3, 4):
        for ks in itertools.product(["meshC", "meshC2", "meshT", "meshC3", "meshC4"] if n < 4 else ["meshC", "meshC3", "meshT", "meshC4"], repeat=n):
            for obs in ("p1", "pin", "p2"):
                for field in ("B", "J"):
                    cases.append({"part": "compose", "srcs": [[k, 1] for k in ks], "obs": obs, "field": field})
    # Polyline-only lists up to length 4: vertex sets of equal and unequal length with different currents in one group
    for n in (2, 3, 4):
        for ks in itertools.product(["pol2", "pol3", "pol3b", "pol5"], repeat=n):
            for obs, field in (("p2", "B"), ("p1", "H")):
                if n == 4 and obs == "p1":
                    continue
                cases.append({"part": "compose", "srcs": [[k, 1 if i % 2 == 0 or n == 4 else 2] for i, k in enumerate(ks)], "obs": obs, "field": field})
    # duplicates given as the very same object
    for k in ("cub", "meshC", "pol3"):
        for pl in (1, 3):
            cases.append({"part": "compose", "srcs": [[k, pl], ["circ", 2], [k, pl]], "obs": "p2", "field": "B", "alias_dups": True})
    # compute - edit - compute histories (one and two edits)
    for kind in SRC:
        for obs in ("p2", "srot"):
            for field in ("B", "H"):
                for m1 in MUTATIONS:
                    cases.append({"part": "stale", "kind": kind, "obs": obs, "field": field, "muts": [m1]})
                    if obs == "p2" and field == "B":
                        for m2 in MUTATIONS:
                            if m2 != m1:
                                cases.append({"part": "stale", "kind": kind, "obs": obs, "field": field, "muts": [m1, m2]})
    # batch sweeps
    for kind in ("cyl", "circ", "seg", "cub", "meshC", "pol3"):
        nrows = len(batch_rows(kind))
        for n in range(1, 21):
            for rot in range(nrows):
                for field in (("B", "H", "J") if kind in ("cyl", "seg", "cub", "meshC") else ("B", "H")):
                    if tier == "quick" and field == "H" and n not in (1, 2, 9, 10, 11, 15, 16, 20):
                        continue
                    cases.append({"part": "batch", "kind": kind, "n": n, "rot": rot, "field": field})
    return cases


def vkey(c, r):
    if c["part"] == "big":
        return f"C06|big-call|{'+'.join(c['kinds'])}|{c['field']}|{r.split(' ')[0]}"
    if c["part"] == "stale":
        return f"C06|stale|{c['kind']}|{c['field']}|{'+'.join(c['muts'])}|{r.split(' ')[0]}"
    if c["part"] == "batch":
        return f"C06|batch|{c['kind']}|{c['field']}|{'n>=10' if c['n'] >= 10 else 'n<10'}|{r.split(' ')[0]}"
    kinds = sorted({k for k, _ in c["srcs"]})
    m = r.split("source=")
    culprit = m[1].split(" ")[0] if len(m) > 1 else "+".join(kinds)
    same = "equalpaths" if len({pl for _, pl in c["srcs"]}) == 1 else "mixedpaths"
    return f"C06|compose|{culprit}|{c['field']}|obs={c['obs']}|{same}|{r.split(' ')[0]}"


def run(tier, seed):
    cases = enumerate_cases(tier)
    res = common.pmap(work, cases)
    viols, harness = [], []
    for c, r in zip(cases, res):
        if r is None:
            continue
        if r.startswith("HARNESS"):
            harness.append(f"{c}: {r}")
            continue
        viols.append({"key": vkey(c, r), "what": f"{c}: {r}", "case": c, "observed": r})
    ncomp = sum(1 for c in cases if c["part"] == "compose")
    nontriv = sum(1 for c in cases if c["part"] in ("batch", "stale", "big") or len(c["srcs"]) > 1 or c["srcs"][0][1] > 1)
    cov = {
        "evaluations": len(cases), "distinct_nontrivial": nontriv,
        "rule": "compose cases: all ordered source lists (with duplicates) x per-object path length x observer form x "
                "field, compared element by element with single-object static one-observer calls; batch cases: n rows "
                "(1..20) in every cyclic rotation of a row alphabet vs each row evaluated alone. Non-trivial = more than "
                "one source, or a path, or a batch (all cases are distinct by construction)",
        "samples": [cases[0], cases[ncomp // 2], cases[-1]],
        "exhaustive": True,
        "compose_cases": ncomp, "batch_cases": len(cases) - ncomp,
        "source_alphabet": SRC, "observer_forms": OBS,
    }
    return {"coverage": cov, "violations": viols, "harness_errors": harness[:5],
            "assumptions": ["the single-object, single-observer static call is the reference value of an element"]}


def replay(case):
    r = work(case)
    return {"violated": r is not None and not str(r).startswith("HARNESS"), "observed": r}
