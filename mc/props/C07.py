"""C07 - all interfaces to the same computation return the same numbers.

Grid explorer. (a) functional interface: class x field x n in {1,2,3,5} x every subset of
{excitation, geometry, position, orientation, observers} given per instance (the others single, to
be tiled); reference = n explicitly constructed objects evaluated one by one. (b) call forms of the
object-oriented interface for every registered class incl. aliases and CustomSource, dataframe
output. (c) core functions vs the object interface at outside observers.
"""
import itertools

import numpy as np

from mc import common

LEVEL = "exploration"
RTOL = 1e-10
NS = [1, 2, 3, 5]
TV = np.array([(-0.5, -0.4, -0.3), (0.9, -0.3, -0.4), (-0.2, 0.8, -0.3), (0, 0, 0.9)], float)
CUBE_V = np.array([(x, y, z) for x in (-1, 1) for y in (-1, 1) for z in (-1, 1)], float) * 0.5
CUBE_F = np.array([(0, 1, 3), (0, 3, 2), (4, 6, 7), (4, 7, 5), (0, 4, 5), (0, 5, 1), (2, 3, 7), (2, 7, 6), (0, 2, 6), (0, 6, 4),
                   (1, 5, 7), (1, 7, 3)])


TET_F = np.array([(0, 2, 1), (0, 1, 3), (0, 3, 2), (1, 2, 3)])
INSIDE_LOCAL = {"CylinderSegmentMixed": (0.55, 0.2, 0.1), "TriangularMeshRagged": (0.05, 0.02, 0.0)}


def inside_local(cls, i):
    """a point inside body i that is OUTSIDE the shapes of the other body kinds of the pseudo class"""
    s = 1 + 0.25 * i
    if cls == "CylinderSegmentMixed":
        return np.array((0.55, 0.2, 0.1)) * s if i % 2 == 0 else np.array((-0.55, -0.2, 0.1)) * s  # ring: azimuth outside the section
    if i % 3 == 0:
        return np.array((0.05, 0.45, 0.0)) * s      # in the cube, outside the flat box and the tetrahedron
    if i % 3 == 1:
        return np.array((0.75, 0.02, 0.0)) * s      # in the long box, outside the cube
    return np.array((0.05, 0.02, 0.0)) * s


def spec(cls, i):
    """parameters of instance i of class cls: (ctor kwargs, functional kwargs)"""
    s = 1 + 0.25 * i
    pol = np.array((0.2 + 0.1 * i, -0.3, 0.5 - 0.2 * i))
    if cls == "Cuboid":
        g = np.array((1.0, 1.2, 0.8)) * s
        return {"polarization": pol, "dimension": g}, ("polarization", "dimension")
    if cls == "Cylinder":
        return {"polarization": pol, "dimension": np.array((1.0, 1.2)) * s}, ("polarization", "dimension")
    if cls == "CylinderSegment":
        return {"polarization": pol, "dimension": np.array((0.3 * s, 0.9 * s, 1.1 * s, -30 + 5 * i, 200))}, ("polarization", "dimension")
    if cls == "CylinderSegmentMixed":  # partial sections and full hollow rings alternate (ring = two-cylinder shortcut)
        d = (0.3 * s, 0.9 * s, 1.1 * s, -30 + 5 * i, 200) if i % 2 == 0 else (0.35 * s, 0.8 * s, 1.2 * s, 0, 360)
        return {"polarization": pol, "dimension": np.array(d)}, ("polarization", "dimension")
    if cls == "TriangularMeshRagged":  # equal face counts with different geometry next to a different face count
        if i % 3 == 2:
            v, f = TV * s, TET_F
        else:
            v, f = CUBE_V * (s * np.array((1.0, 1.0, 1.0) if i % 3 == 0 else (1.7, 0.6, 0.8))), CUBE_F
        return {"polarization": pol, "vertices": v, "faces": f}, ("polarization", "mesh")
    if cls == "Sphere":
        return {"polarization": pol, "diameter": 1.1 * s}, ("polarization", "diameter")
    if cls == "Tetrahedron":
        return {"polarization": pol, "vertices": TV * s}, ("polarization", "vertices")
    if cls == "TetrahedronLeft":   # the same bodies with a left-handed vertex order (reordered inside the field function)
        return {"polarization": pol, "vertices": (TV * s)[[0, 2, 1, 3]]}, ("polarization", "vertices")
    if cls == "Triangle":
        return {"polarization": pol, "vertices": TV[:3] * s}, ("polarization", "vertices")
    if cls == "TriangularMesh":
        return {"polarization": pol, "vertices": CUBE_V * s, "faces": CUBE_F}, ("polarization", "mesh")
    if cls in ("Circle", "Loop"):
        return {"current": 1.5 + i, "diameter": 1.3 * s}, ("current", "diameter")
    if cls == "Polyline_seg":
        return {"current": 1.5 + i, "vertices": np.array([(0, 0, 0), (1, 1, 0.5)]) * s}, ("current", "segments")
    if cls in ("Polyline", "Line"):
        return {"current": 1.5 + i, "vertices": np.array([(0, 0, 0), (1, 1, 0.5), (1, 2, -0.4)]) * s}, ("current", "vertices")
    if cls == "Dipole":
        return {"moment": pol * 3}, ("moment", None)
    raise AssertionError(cls)


def ctor(cls):
    import magpylib as magpy

    return {"Cuboid": magpy.magnet.Cuboid, "Cylinder": magpy.magnet.Cylinder, "CylinderSegment": magpy.magnet.CylinderSegment,
            "Sphere": magpy.magnet.Sphere, "Tetrahedron": magpy.magnet.Tetrahedron, "TetrahedronLeft": magpy.magnet.Tetrahedron, "Triangle": magpy.misc.Triangle,
            "TriangularMesh": magpy.magnet.TriangularMesh, "Circle": magpy.current.Circle, "Polyline": magpy.current.Polyline,
            "Polyline_seg": magpy.current.Polyline, "Dipole": magpy.misc.Dipole,
            "CylinderSegmentMixed": magpy.magnet.CylinderSegment, "TriangularMeshRagged": magpy.magnet.TriangularMesh,
            "Loop": magpy.current.Loop, "Line": magpy.current.Line}[cls]


def pose(i):
    from scipy.spatial.transform import Rotation as R

    return np.array((0.3 * i, -0.2 * i, 0.1 * i + 0.05)), R.from_rotvec((0.1 + 0.2 * i, -0.1 * i, 0.3))


def observer(i):
    return np.array((1.7 + 0.3 * i, 0.9 - 0.4 * i, -0.6 + 0.5 * i))


FUNC_CLASSES = ["Cuboid", "Cylinder", "CylinderSegment", "Sphere", "Tetrahedron", "TetrahedronLeft", "Triangle", "TriangularMesh", "Circle",
                "Polyline", "Polyline_seg", "Dipole"]
PARTS = ["exc", "geo", "pos", "ori", "obs"]


def run_func(c):
    import magpylib as magpy
    from scipy.spatial.transform import Rotation as R

    cls, n, field, per = c["cls"], c["n"], c["field"], set(c["per"])
    name = {"Polyline_seg": "Polyline", "CylinderSegmentMixed": "CylinderSegment", "TriangularMeshRagged": "TriangularMesh", "TetrahedronLeft": "Tetrahedron"}.get(cls, cls)
    idx = lambda part, i: i if part in per else 0  # noqa: E731
    exp = np.empty((n, 3))
    kw_lists = {"exc": [], "geo": [], "pos": [], "ori": [], "obs": []}
    for i in range(n):
        ck_e, (ename, gname) = spec(cls, idx("exc", i))
        ck_g, _ = spec(cls, idx("geo", i))
        p, _ = pose(idx("pos", i))
        _, r = pose(idx("ori", i))
        if c.get("ori_none"):
            r = R.identity()
        o = observer(idx("obs", i))
        if c.get("inside"):  # an observer inside the body that instance i is built from
            o = p + r.apply(inside_local(cls, idx("geo", i)))
        kwargs = dict(ck_g)
        kwargs[ename] = ck_e[ename]
        obj = ctor(cls)(position=p, orientation=r, **kwargs)
        exp[i] = getattr(obj, "get" + field)(o)
        kw_lists["exc"].append(ck_e[ename])
        if gname == "mesh":
            kw_lists["geo"].append(np.array(ck_g["vertices"])[np.array(ck_g["faces"])])
        elif gname == "segments":
            kw_lists["geo"].append(np.array(ck_g["vertices"]))
        elif gname is not None:
            kw_lists["geo"].append(ck_g[gname])
        kw_lists["pos"].append(p)
        kw_lists["ori"].append(r.as_quat())
        kw_lists["obs"].append(o)
    _, (ename, gname) = spec(cls, 0)

    def arg(part):
        v = kw_lists[part]
        if part == "geo" and part in per and len({np.shape(x) for x in v}) > 1:
            return [np.array(x) for x in v]     # ragged input (meshes with different face counts): a list of arrays
        a = np.array(v) if part in per else np.array(v[0])
        return float(a) if a.ndim == 0 else a

    fkw = {ename: arg("exc")}
    if gname == "segments":
        g = arg("geo")
        fkw["segment_start"] = g[..., 0, :]
        fkw["segment_end"] = g[..., 1, :]
    elif gname is not None:
        fkw[gname] = arg("geo")
    fkw["position"] = arg("pos")
    fkw["orientation"] = R.from_quat(arg("ori")) if not c.get("ori_none") else None    # None: the documented unit rotation
    obs = arg("obs")
    if c.get("aslist"):
        fkw = {k: (v.tolist() if isinstance(v, np.ndarray) else v) for k, v in fkw.items()}
        if isinstance(fkw.get("mesh"), list) and fkw["mesh"] and isinstance(fkw["mesh"][0], np.ndarray):
            fkw["mesh"] = [m.tolist() for m in fkw["mesh"]]
        obs = obs.tolist()
    try:
        got = getattr(magpy, "get" + field)(name, obs, squeeze=False, **fkw)
    except Exception as e:
        return f"raised {type(e).__name__}: {str(e)[:120]}"
    nn = n if per else 1
    want = exp[:nn]
    got = np.asarray(got)
    if got.shape != want.shape:
        return f"shape {got.shape} != expected {want.shape}"
    sc = max(np.max(np.abs(want)), 1e-300)
    err = np.max(np.abs(got - want)) / sc
    if not err <= RTOL:
        return f"values differ rel={err:.3g}"
    return None


INT_SCALES = [1, 1000, 4_000_000_000]


def run_intdtype(c):
    """the functional interface with whole-number parameters: the same numbers as int64 arrays, as nested lists of Python ints
    and as float arrays are the same input (array_like), whatever their magnitude (a metre-sized body written in nanometres)"""
    import magpylib as magpy

    cls, K, field = c["cls"], c["scale"], c["field"]
    name = {"Polyline_seg": "Polyline", "TetrahedronLeft": "Tetrahedron"}.get(cls, cls)
    n = 2
    fkw, obs = {}, []
    exc_l, geo_l, pos_l = [], [], []
    _, (ename, gname) = spec(cls, 0)
    for i in range(n):
        ck, _ = spec(cls, i)
        e = np.round(np.array(ck[ename], float) * 10 * K)
        exc_l.append(e)
        if gname == "mesh":
            g = np.round(np.array(ck["vertices"])[np.array(ck["faces"])] * 20 * K)
        elif gname == "segments":
            g = np.round(np.array(ck["vertices"]) * 20 * K)
        elif gname is not None:
            g = np.array(ck[gname], float) * 20 * K
            if cls == "CylinderSegment":
                g[3:] = np.array(ck[gname], float)[3:]
            g = np.round(g)
        else:
            g = None
        geo_l.append(g)
        pos_l.append(np.round(pose(i)[0] * 20 * K))
        obs.append(np.round(observer(i) * 20 * K))
    fkw[ename] = np.array(exc_l)
    if gname == "segments":
        g = np.array(geo_l)
        fkw["segment_start"], fkw["segment_end"] = g[:, 0, :], g[:, 1, :]
    elif gname is not None:
        fkw[gname] = np.array(geo_l)
    fkw["position"] = np.array(pos_l)
    obs = np.array(obs)
    fn = getattr(magpy, "get" + field)
    try:
        ref = np.asarray(fn(name, obs.astype(float), **{k: v.astype(float) for k, v in fkw.items()}))
        as_int = np.asarray(fn(name, obs.astype(np.int64), **{k: v.astype(np.int64) for k, v in fkw.items()}))
        as_list = np.asarray(fn(name, obs.astype(np.int64).tolist(), **{k: v.astype(np.int64).tolist() for k, v in fkw.items()}))
    except Exception as e:
        return f"raised {type(e).__name__}: {str(e)[:120]}"
    if not np.all(np.isfinite(ref)):
        return None
    sc = max(float(np.max(np.abs(ref))), 1e-300)
    for tag, got in (("int64-arrays", as_int), ("python-int-lists", as_list)):
        if got.shape != ref.shape or not np.all(np.isfinite(got)) or np.max(np.abs(got - ref)) > 1e-12 * sc:
            err = float(np.max(np.abs(np.nan_to_num(got, nan=np.inf) - ref))) / sc if got.shape == ref.shape else float("inf")
            return f"integer-typed input ({tag}) gives another result than the same numbers as floats: rel={err:.3g}"
    return None


# ------------------------------------------------------------------ (b) call forms
def _ff(field, observers):
    return np.array(observers) * 2.0 + 1.0 if field in "BH" else None


def _ff2(field, observers):
    return np.array(observers) ** 2 - 0.7 if field in "BH" else None


FORM_CLASSES = ["Cuboid", "Cylinder", "CylinderSegment", "Sphere", "Tetrahedron", "Triangle", "TriangularMesh", "Circle",
                "Loop", "Polyline", "Line", "Dipole", "CustomSource"]


def mk_obj(cls, i=0, plen=1):
    import magpylib as magpy

    p, r = pose(i + 1)
    if cls == "CustomSource":
        o = magpy.misc.CustomSource(field_func=_ff if i == 0 else _ff2, position=p, orientation=r)
    else:
        kw, _ = spec(cls, i)
        o = ctor(cls)(position=p, orientation=r, **kw)
    if plen > 1:
        o.move([(0.1, 0.05, -0.02)] * (plen - 1))
        o.rotate_from_angax([15.0 * k for k in range(plen)], "y", start=0)
    return o


def run_forms(c):
    import magpylib as magpy

    cls, field, plen = c["cls"], c["field"], c["plen"]
    fn = getattr(magpy, "get" + field)
    if cls == "CustomSource" and field in "JM":
        return None
    s1, s2 = mk_obj(cls, 0, plen), mk_obj(cls, 1, 1)
    pts = np.array([(1.7, 0.9, -0.6), (0.2, 0.1, 0.05), (-2, 1.5, 3)])
    sens = magpy.Sensor(pixel=pts)  # identity pose: pixels are global positions
    sens2 = magpy.Sensor(pixel=pts + (0.5, 0.5, 0.5))
    ref1 = fn(s1, pts, squeeze=False)  # (1, m, 1, 3, 3)
    ref2 = fn(s2, pts, squeeze=False)
    ref1b = fn(s1, pts + (0.5, 0.5, 0.5), squeeze=False)
    M = ref1.shape[1]
    ref2 = np.repeat(ref2, M, axis=1) if ref2.shape[1] != M else ref2
    forms = {}
    g = lambda name: getattr(magpy, name)  # noqa: E731
    forms["src.getX(obs)"] = (lambda: getattr(s1, "get" + field)(pts, squeeze=False), ref1)
    forms["src.getX(o1,o2)"] = (lambda: getattr(s1, "get" + field)(sens, sens2, squeeze=False),
                                np.concatenate([ref1, ref1b], axis=2))
    forms["sens.getX(src)"] = (lambda: getattr(sens, "get" + field)(s1, squeeze=False), ref1)
    forms["sens.getX(s1,s2)"] = (lambda: getattr(sens, "get" + field)(s1, s2, squeeze=False), np.concatenate([ref1, ref2], axis=0))
    forms["getX([s1,s2],obs)"] = (lambda: fn([s1, s2], pts, squeeze=False), np.concatenate([ref1, ref2], axis=0))
    forms["getX(sumup)"] = (lambda: fn([s1, s2], pts, squeeze=False, sumup=True), ref1 + ref2)
    forms["sens.getX(sumup)"] = (lambda: getattr(sens, "get" + field)(s1, s2, squeeze=False, sumup=True), ref1 + ref2)
    forms["src.getX(squeeze)"] = (lambda: getattr(s1, "get" + field)(pts), np.squeeze(ref1))
    forms["getX(src,sens)"] = (lambda: fn(s1, sens, squeeze=False), ref1)

    def coll_src():
        a, b = mk_obj(cls, 0, plen), mk_obj(cls, 1, 1)
        return getattr(magpy.Collection(a, b), "get" + field)(pts, squeeze=False)

    forms["Collection(s1,s2).getX(obs)"] = (coll_src, ref1 + ref2)

    def coll_sens():
        se = magpy.Sensor(pixel=pts)
        return getattr(magpy.Collection(se), "get" + field)(s1, squeeze=False)

    forms["Collection(sens).getX(src)"] = (coll_sens, ref1)

    def coll_both():
        a = mk_obj(cls, 0, plen)
        se = magpy.Sensor(pixel=pts)
        return getattr(magpy.Collection(a, se), "get" + field)(squeeze=False)

    forms["Collection(src,sens).getX()"] = (coll_both, ref1)

    # observers given as a nested Collection tree: the sensor axis follows the tree (pre-order), also in the dataframe
    sens3 = magpy.Sensor(pixel=pts - (0.4, 0.1, 0.3))
    ref1c = fn(s1, pts - (0.4, 0.1, 0.3), squeeze=False)

    def tree():
        return magpy.Collection(magpy.Collection(magpy.Sensor(pixel=pts), magpy.Sensor(pixel=pts + (0.5, 0.5, 0.5))), magpy.Sensor(pixel=pts - (0.4, 0.1, 0.3)))

    ref_tree = np.concatenate([ref1, ref1b, ref1c], axis=2)
    forms["getX(src,nested-sensor-tree)"] = (lambda: fn(s1, tree(), squeeze=False), ref_tree)
    forms["src.getX(nested-sensor-tree)"] = (lambda: getattr(s1, "get" + field)(tree(), squeeze=False), ref_tree)
    forms["nested-sensor-tree.getX(src)"] = (lambda: getattr(tree(), "get" + field)(s1, squeeze=False), ref_tree)
    forms["getX(src,[sens,nested-tree])"] = (lambda: fn(s1, [sens3, tree()], squeeze=False), np.concatenate([ref1c, ref_tree], axis=2))

    def df():
        d = fn([s1, s2], [sens, sens2], output="dataframe")
        cols = [field + k for k in "xyz"]
        arr = d[cols].to_numpy().reshape(2, M, 2, 3, 3)
        # documented order: source, path, sensor, pixel
        assert list(d["path"][:6]) == [0] * 6 if M == 1 else True
        return arr

    ref_df = np.concatenate([np.concatenate([ref1, ref1b], axis=2),
                             np.concatenate([ref2, np.repeat(fn(s2, pts + (0.5, 0.5, 0.5), squeeze=False), M, axis=1)], axis=2)], axis=0)
    forms["dataframe"] = (df, ref_df)
    bad = []
    for name, (f, ref) in forms.items():
        try:
            got = np.asarray(f())
        except Exception as e:
            bad.append(f"{name}: raised {type(e).__name__}: {str(e)[:80]}")
            continue
        if got.shape != ref.shape:
            bad.append(f"{name}: shape {got.shape} != {ref.shape}")
            continue
        sc = max(np.max(np.abs(ref)), 1e-300)
        if not np.max(np.abs(got - ref)) / sc <= RTOL:
            bad.append(f"{name}: values differ rel={np.max(np.abs(got - ref)) / sc:.3g}")
    return bad or None


# ------------------------------------------------------------------ (c) core functions
class CoreProxy:
    """wraps magpylib.core: every call is made twice with the very same argument objects; records whether an input
    array was modified in place and whether the second result differs from the first"""

    def __init__(self, mod):
        self._mod = mod
        self.mutated, self.second_differs, self.layout_differs = [], [], []

    @staticmethod
    def _nrows(kw):
        return max((len(v) for v in kw.values() if isinstance(v, np.ndarray) and v.ndim >= 1), default=0)

    @staticmethod
    def _layouts(kw):
        """the same argument values in other memory layouts a caller may hold them in"""
        arrs = {k: v for k, v in kw.items() if isinstance(v, np.ndarray) and v.ndim >= 1}

        def fortran(v):
            return np.asfortranarray(v)

        def strided(v):
            big = np.zeros((2 * len(v),) + v.shape[1:], v.dtype)
            big[::2] = v
            return big[::2]

        def transposed(v):   # (n,3) view of a (3,n) array, as produced by np.array([X, Y, Z]).T
            return np.array(v.T, order="C").T if v.ndim == 2 else v

        def readonly(v):
            w = v.copy()
            w.flags.writeable = False
            return w

        for lname, f in (("fortran", fortran), ("strided", strided), ("transposed", transposed), ("readonly", readonly)):
            yield lname, None, {**kw, **{k: f(v) for k, v in arrs.items()}}
        n = max((len(v) for v in arrs.values()), default=0)
        for i in range(min(n, 3)):     # single rows (1,k): views of the caller's arrays
            yield f"row{i}", i, {**kw, **{k: v[i:i + 1] for k, v in arrs.items()}}

    def __getattr__(self, name):
        fn = getattr(self._mod, name)

        def wrapper(**kw):
            before = {k: np.array(v, copy=True) for k, v in kw.items() if isinstance(v, np.ndarray)}
            out = fn(**kw)
            first = np.array(out, copy=True)
            for k, b in before.items():
                if kw[k].shape != b.shape or not np.array_equal(kw[k], b, equal_nan=True):
                    self.mutated.append(f"{name}:{k}")
            out2 = fn(**kw)
            if not np.array_equal(np.asarray(out2), first, equal_nan=True):
                self.second_differs.append(name)
            if not self.mutated:
                for lname, row, kw2 in self._layouts(kw):
                    b2 = {k: np.array(v, copy=True) for k, v in kw2.items() if isinstance(v, np.ndarray)}
                    try:
                        o2 = np.asarray(fn(**kw2))
                    except ValueError as e:
                        if "read-only" in str(e):
                            self.mutated.append(f"{name}:writes-into-read-only-input")
                            continue
                        raise
                    for k, b in b2.items():
                        if not np.array_equal(kw2[k], b, equal_nan=True):
                            self.mutated.append(f"{name}:{k}[{lname}]")
                    if row is None:
                        want = first
                    elif first.shape[0] == len(next(iter(b2.values()))) * 0 + self._nrows(kw):
                        want = first[row:row + 1]
                    else:   # component-first results (cylinder cores): rows are the last axis
                        want = first[..., row:row + 1]
                    sc = np.max(np.abs(np.nan_to_num(want))) if want.size else 0.0
                    if o2.shape != want.shape or not np.allclose(o2, want, rtol=1e-12, atol=1e-13 * sc, equal_nan=True):
                        self.layout_differs.append(f"{name}[{lname}]")
            return first

        return wrapper


def run_core(c, probe=None):
    import magpylib as magpy
    from magpylib import core as _core

    core = probe if probe is not None else CoreProxy(_core)
    name = c["core"]
    n = 4
    obs = np.array([observer(i) for i in range(n)])
    mu0 = magpy.mu_0
    if name == "magnet_cuboid_Bfield":
        dims = np.array([spec("Cuboid", i)[0]["dimension"] for i in range(n)])
        pols = np.array([spec("Cuboid", i)[0]["polarization"] for i in range(n)])
        got = core.magnet_cuboid_Bfield(observers=obs, dimensions=dims, polarizations=pols)
        ref = np.array([magpy.magnet.Cuboid(dimension=d, polarization=p).getB(o) for d, p, o in zip(dims, pols, obs)])
    elif name == "magnet_sphere_Bfield":
        dia = np.array([spec("Sphere", i)[0]["diameter"] for i in range(n)])
        pols = np.array([spec("Sphere", i)[0]["polarization"] for i in range(n)])
        got = core.magnet_sphere_Bfield(observers=obs, diameters=dia, polarizations=pols)
        ref = np.array([magpy.magnet.Sphere(diameter=d, polarization=p).getB(o) for d, p, o in zip(dia, pols, obs)])
    elif name == "dipole_Hfield":
        moms = np.array([spec("Dipole", i)[0]["moment"] for i in range(n)])
        got = core.dipole_Hfield(observers=obs, moments=moms)
        ref = np.array([magpy.misc.Dipole(moment=m).getH(o) for m, o in zip(moms, obs)])
    elif name == "current_polyline_Hfield":
        segs = np.array([spec("Polyline_seg", i)[0]["vertices"] for i in range(n)])
        cur = np.array([spec("Polyline_seg", i)[0]["current"] for i in range(n)])
        got = core.current_polyline_Hfield(observers=obs, segments_start=segs[:, 0], segments_end=segs[:, 1], currents=cur)
        ref = np.array([magpy.current.Polyline(vertices=s, current=i0).getH(o) for s, i0, o in zip(segs, cur, obs)])
    elif name == "triangle_Bfield":
        vs = np.array([spec("Triangle", i)[0]["vertices"] for i in range(n)])
        pols = np.array([spec("Triangle", i)[0]["polarization"] for i in range(n)])
        got = core.triangle_Bfield(observers=obs, vertices=vs, polarizations=pols)
        ref = np.array([magpy.misc.Triangle(vertices=v, polarization=p).getB(o) for v, p, o in zip(vs, pols, obs)])
    elif name == "current_circle_Hfield":
        dia = np.array([spec("Circle", i)[0]["diameter"] for i in range(n)])
        cur = np.array([spec("Circle", i)[0]["current"] for i in range(n)])
        r = np.sqrt(obs[:, 0] ** 2 + obs[:, 1] ** 2)
        phi = np.arctan2(obs[:, 1], obs[:, 0])
        Hc = np.asarray(core.current_circle_Hfield(r0=dia / 2, r=r, z=obs[:, 2], i0=cur))
        Hr, Hz = Hc[0], Hc[2]
        got = np.array([Hr * np.cos(phi), Hr * np.sin(phi), Hz]).T
        ref = np.array([magpy.current.Circle(diameter=d, current=i0).getH(o) for d, i0, o in zip(dia, cur, obs)])
    elif name == "magnet_cylinder_segment_Hfield":
        dims = np.array([spec("CylinderSegmentMixed", i)[0]["dimension"] for i in range(n)])   # incl. full hollow rings
        pols = np.array([spec("CylinderSegmentMixed", i)[0]["polarization"] for i in range(n)])
        r = np.sqrt(obs[:, 0] ** 2 + obs[:, 1] ** 2)
        phi = np.arctan2(obs[:, 1], obs[:, 0])
        ocy = np.array([r, phi, obs[:, 2]]).T
        dcy = np.array([dims[:, 0], dims[:, 1], np.deg2rad(dims[:, 3]), np.deg2rad(dims[:, 4]), -dims[:, 2] / 2, dims[:, 2] / 2]).T
        m = np.linalg.norm(pols, axis=1) / mu0
        mag = np.array([m, np.arctan2(pols[:, 1], pols[:, 0]), np.arctan2(np.hypot(pols[:, 0], pols[:, 1]), pols[:, 2])]).T
        Hc = core.magnet_cylinder_segment_Hfield(observers=ocy, dimensions=dcy, magnetizations=mag)
        got = np.array([Hc[:, 0] * np.cos(phi) - Hc[:, 1] * np.sin(phi), Hc[:, 0] * np.sin(phi) + Hc[:, 1] * np.cos(phi), Hc[:, 2]]).T
        ref = np.array([magpy.magnet.CylinderSegment(dimension=d, polarization=p).getH(o) for d, p, o in zip(dims, pols, obs)])
    elif name == "magnet_cylinder_axial_Bfield":
        dims = np.array([spec("Cylinder", i)[0]["dimension"] for i in range(n)])
        r0, z0 = dims[:, 0] / 2, dims[:, 1] / 2
        r = np.sqrt(obs[:, 0] ** 2 + obs[:, 1] ** 2)
        phi = np.arctan2(obs[:, 1], obs[:, 0])
        Bc = np.asarray(core.magnet_cylinder_axial_Bfield(z0=z0 / r0, r=r / r0, z=obs[:, 2] / r0))
        pz = 0.7
        got = pz * np.array([Bc[0] * np.cos(phi), Bc[0] * np.sin(phi), Bc[2]]).T
        ref = np.array([magpy.magnet.Cylinder(dimension=d, polarization=(0, 0, pz)).getB(o) for d, o in zip(dims, obs)])
    elif name == "magnet_cylinder_diametral_Hfield":
        dims = np.array([spec("Cylinder", i)[0]["dimension"] for i in range(n)])
        r0, z0 = dims[:, 0] / 2, dims[:, 1] / 2
        r = np.sqrt(obs[:, 0] ** 2 + obs[:, 1] ** 2)
        phi = np.arctan2(obs[:, 1], obs[:, 0])
        px = 0.6  # polarization along x: phi measured from the magnetization direction
        Hc = np.asarray(core.magnet_cylinder_diametral_Hfield(z0=z0 / r0, r=r / r0, z=obs[:, 2] / r0, phi=phi))
        got = px / mu0 * np.array([Hc[0] * np.cos(phi) - Hc[1] * np.sin(phi), Hc[0] * np.sin(phi) + Hc[1] * np.cos(phi), Hc[2]]).T
        ref = np.array([magpy.magnet.Cylinder(dimension=d, polarization=(px, 0, 0)).getH(o) for d, o in zip(dims, obs)])
    else:
        raise AssertionError(name)
    got = np.asarray(got)
    if got.shape != ref.shape:
        return f"shape {got.shape} != {ref.shape}"
    sc = max(np.max(np.abs(ref)), 1e-300)
    err = np.max(np.abs(got - ref)) / sc
    # full rings: the object interface uses the difference of two Cylinders, the core the 26-case segment formulas whose
    # elliptic routines stop at ~1e-9: two algorithms, compared at 1e-8 (a wrong body shows at O(1))
    tol = 1e-8 if name == "magnet_cylinder_segment_Hfield" else RTOL
    if core.second_differs:
        return f"second identical call of the core function differs: {core.second_differs}"
    if core.layout_differs:
        return f"core function result depends on the memory layout of its inputs: {sorted(set(core.layout_differs))}"
    return None if err <= tol else f"values differ rel={err:.3g}"


def run_core_cells(c):
    """core function vs object interface on ALL observer cells of C01 for the class (both sides of every formula switch),
    local frame = global frame, one vectorised call each"""
    import magpylib as magpy
    from magpylib import core as _core

    from mc.props import C01

    core = CoreProxy(_core)
    cls, ri, exc = c["cls"], c["regime"], np.array(C01.EXC[c["exc"]], float)
    par = C01.REGIMES[cls][ri]
    loc, _ = C01.cells(cls, par if cls != "Dipole" else {}, "quick", c.get("seed", 0))
    loc = loc[~C01.on_source(cls, par, loc)]
    n = len(loc)
    mu0 = magpy.mu_0
    src = C01.make(cls, par, tuple(exc), ((0.0, 0.0, 0.0), (0.0, 0.0, 0.0)))
    r, phi = np.sqrt(loc[:, 0] ** 2 + loc[:, 1] ** 2), np.arctan2(loc[:, 1], loc[:, 0])

    def cart(Hr, Hphi, Hz):
        return np.array([Hr * np.cos(phi) - Hphi * np.sin(phi), Hr * np.sin(phi) + Hphi * np.cos(phi), Hz]).T

    tile = lambda v: np.tile(np.array(v, float), (n, 1))  # noqa: E731
    if cls == "Cuboid":
        got, ref = core.magnet_cuboid_Bfield(observers=loc.copy(), dimensions=tile(par["dimension"]), polarizations=tile(exc)), src.getB(loc)
    elif cls == "Sphere":
        got, ref = core.magnet_sphere_Bfield(observers=loc.copy(), diameters=np.full(n, par["diameter"]), polarizations=tile(exc)), src.getB(loc)
    elif cls == "Dipole":
        got, ref = core.dipole_Hfield(observers=loc.copy(), moments=tile(exc)), src.getH(loc)
    elif cls == "Triangle":
        got, ref = core.triangle_Bfield(observers=loc.copy(), vertices=np.tile(np.array(par["vertices"], float), (n, 1, 1)), polarizations=tile(exc)), src.getB(loc)
    elif cls == "Circle":
        cur = exc[0] * 3 + 1.7
        Hc = np.asarray(core.current_circle_Hfield(r0=np.full(n, par["diameter"] / 2), r=r, z=loc[:, 2].copy(), i0=np.full(n, cur)))
        got, ref = cart(Hc[0], Hc[1], Hc[2]), src.getH(loc)
    elif cls == "Polyline":
        cur = exc[0] * 3 + 1.7
        v = np.array(par["vertices"], float)
        got = sum(core.current_polyline_Hfield(observers=loc.copy(), segments_start=tile(a), segments_end=tile(b), currents=np.full(n, cur))
                  for a, b in zip(v[:-1], v[1:]))
        ref = src.getH(loc)
    elif cls == "Cylinder":
        r0, z0 = par["dimension"][0] / 2, par["dimension"][1] / 2
        Bax = np.asarray(core.magnet_cylinder_axial_Bfield(z0=np.full(n, z0 / r0), r=r / r0, z=loc[:, 2] / r0))
        pxy = np.hypot(exc[0], exc[1])
        th = np.arctan2(exc[1], exc[0])
        Hd = np.asarray(core.magnet_cylinder_diametral_Hfield(z0=np.full(n, z0 / r0), r=r / r0, z=loc[:, 2] / r0, phi=phi - th))
        got = cart(Bax[0], Bax[1], Bax[2]) * exc[2] / mu0 + cart(Hd[0], Hd[1], Hd[2]) * pxy / mu0
        # the axial core returns B/J: inside the body H = (B - J_z e_z)/mu0
        ins = (r <= r0) & (np.abs(loc[:, 2]) <= z0)
        got[ins, 2] -= exc[2] / mu0
        ref = src.getH(loc)
    elif cls == "CylinderSegment":
        d = np.array(par["dimension"], float)
        if d[4] - d[3] >= 360:
            return None   # full rings are evaluated by the Cylinder shortcut in the object interface (compared in run_core)
        dcy = np.tile(np.array([d[0], d[1], np.deg2rad(d[3]), np.deg2rad(d[4]), -d[2] / 2, d[2] / 2]), (n, 1))
        m = np.linalg.norm(exc) / mu0
        mag = np.tile(np.array([m, np.arctan2(exc[1], exc[0]), np.arctan2(np.hypot(exc[0], exc[1]), exc[2])]), (n, 1))
        Hc = core.magnet_cylinder_segment_Hfield(observers=np.array([r, phi, loc[:, 2]]).T, dimensions=dcy, magnetizations=mag)
        got, ref = cart(Hc[:, 0], Hc[:, 1], Hc[:, 2]), src.getH(loc)
    else:
        raise AssertionError(cls)
    got, ref = np.asarray(got, float), np.asarray(ref, float)
    if core.mutated:
        return f"core function modified its input arrays: {sorted(set(core.mutated))}"
    if core.second_differs:
        return f"second identical call of the core function differs: {core.second_differs}"
    if core.layout_differs:
        return f"core function result depends on the memory layout of its inputs: {sorted(set(core.layout_differs))}"
    if got.shape != ref.shape:
        return f"shape {got.shape} != {ref.shape}"
    fin = np.isfinite(got).all(1) & np.isfinite(ref).all(1)
    onaxis = (r == 0) if cls in ("Circle", "Cylinder", "CylinderSegment") else np.zeros(n, bool)   # coordinate singularity of the cylindrical cores
    fin &= ~onaxis
    if ((np.isfinite(got).all(1) != np.isfinite(ref).all(1)) & ~onaxis).any():
        i = int(np.argmax((np.isfinite(got).all(1) != np.isfinite(ref).all(1)) & ~onaxis))
        return f"finite in one interface only at local observer {loc[i].tolist()}: core {got[i].tolist()} object {ref[i].tolist()}"
    # per-row scale with the natural field magnitude as floor (far / symmetric points where the field vanishes)
    top = float(np.max(np.linalg.norm(ref[fin], axis=1))) if fin.any() else 0.0
    if top == 0.0:   # the field vanishes identically (e.g. in-plane polarization of a triangle): both must say so
        return None if not np.any(got[fin]) else "core returns a non-zero field where the object interface returns zero"
    sc = np.maximum(np.linalg.norm(ref, axis=1), 1e-6 * top)
    err = np.linalg.norm(got - ref, axis=1) / sc
    # CylinderSegment: the object interface evaluates in units of the body size, the core in the caller's units; next to the
    # axis and the face planes the 26-case formulas are only accurate to ~1e-6, which then shows as a difference (observed
    # <= 1e-6; a wrong case, angle or parameter shows at >= 1e-2)
    # Cylinder: the diametral formula cancels near the axis (documented, ~1e-10 around r/r0 = 0.05), one-ulp differences of the
    # inputs are amplified to ~1e-9
    tol = 1e-7 if cls == "Cylinder" else 1e-5 if cls == "CylinderSegment" else 1e-10
    bad = fin & ~(err <= tol)
    if cls == "CylinderSegment":
        # beyond a few body sizes both interfaces only deliver cancellation noise (C01 finding); the object interface works in
        # units of the body size, the core in the caller's units, so the noise differs: compared within 3 sizes only
        bad &= np.linalg.norm(loc, axis=1) < 3 * max(par["dimension"][1], par["dimension"][2])
    if bad.any():
        i = int(np.argmax(np.where(bad, err, 0)))
        return f"values differ rel={err[i]:.3g} at local observer {loc[i].tolist()} ({int(bad.sum())} of {n} rows)"
    return None


def run_repaired(c):
    """a TriangularMesh built without reorientation from partly inward faces, evaluated once, then repaired with
    reorient_faces(): every interface must return the field of the mesh the object now describes (tm.vertices[tm.faces])"""
    import magpylib as magpy

    faces = CUBE_F.copy()
    for i in range(len(faces)):
        if (c["flipmask"] >> i) & 1:
            faces[i] = faces[i][[0, 2, 1]]
    pol = (0.2, -0.3, 0.5)
    p, r = pose(1)
    tm = magpy.magnet.TriangularMesh(vertices=CUBE_V, faces=faces, polarization=pol, reorient_faces="skip", position=p, orientation=r)
    obs = np.array([observer(i) for i in range(3)] + [p + r.apply((0.1, 0.05, -0.2))])
    for t in c["touch"]:
        if t == "getB":
            tm.getB(obs)
        elif t == "mesh":
            _ = tm.mesh
        elif t == "show":
            magpy.show(tm, backend="plotly", return_fig=True)
    tm.reorient_faces(mode="ignore")
    f = c["field"]
    want = np.asarray(getattr(magpy, "get" + f)("TriangularMesh", obs, mesh=np.asarray(tm.vertices)[np.asarray(tm.faces)], polarization=pol,
                                                 position=p, orientation=r))
    sens = magpy.Sensor(pixel=obs)
    forms = {"tm.getX": getattr(tm, "get" + f)(obs), "getX(tm)": getattr(magpy, "get" + f)(tm, obs),
             "sens.getX(tm)": getattr(sens, "get" + f)(tm), "Collection(tm).getX": getattr(magpy.Collection(tm.copy()), "get" + f)(obs)}
    sc = max(np.max(np.abs(want)), 1e-300)
    bad = [k for k, v in forms.items() if np.shape(v) != want.shape or not np.max(np.abs(np.asarray(v) - want)) / sc <= RTOL]
    return None if not bad else f"after reorient_faces() these interfaces differ from the functional interface on tm.vertices[tm.faces]: {bad}"


CORES = ["magnet_cuboid_Bfield", "magnet_sphere_Bfield", "dipole_Hfield", "current_polyline_Hfield", "triangle_Bfield",
         "current_circle_Hfield", "magnet_cylinder_segment_Hfield", "magnet_cylinder_axial_Bfield",
         "magnet_cylinder_diametral_Hfield"]


def work(c):
    try:
        if c["part"] == "func":
            return run_func(c)
        if c["part"] == "forms":
            return run_forms(c)
        if c["part"] == "corecells":
            return run_core_cells(c)
        if c["part"] == "repaired":
            return run_repaired(c)
        if c["part"] == "intdtype":
            return run_intdtype(c)
        return run_core(c)
    except Exception as e:
        import traceback

        return "HARNESS " + f"{type(e).__name__}: {e} {traceback.format_exc()[-400:]}"


def enumerate_cases(tier, seed=0):
    cases = []
    subsets = [list(s) for k in range(len(PARTS) + 1) for s in itertools.combinations(PARTS, k)]
    for cls in FUNC_CLASSES:
        for n in NS:
            for per in subsets:
                if cls == "Dipole" and "geo" in per:
                    continue
                for field in ("B", "H", "J", "M"):
                    cases.append({"part": "func", "cls": cls, "n": n, "per": per, "field": field})
            cases.append({"part": "func", "cls": cls, "n": n, "per": PARTS if cls != "Dipole" else ["exc", "pos", "ori", "obs"],
                          "field": "B", "aslist": True})
            cases.append({"part": "func", "cls": cls, "n": n, "per": [x for x in PARTS if x != "ori" and not (cls == "Dipole" and x == "geo")],
                          "field": "H", "ori_none": True})
    for cls in ("CylinderSegmentMixed", "TriangularMeshRagged"):
        for n in (2, 3, 4, 5):
            for per in subsets:
                if "geo" not in per:
                    continue
                for field in ("B", "H", "J", "M"):
                    for inside in ((False, True) if {"pos", "ori", "obs"} <= set(per) else (False,)):
                        cases.append({"part": "func", "cls": cls, "n": n, "per": per, "field": field, "inside": inside})
    for cls in FUNC_CLASSES:
        for K in INT_SCALES:
            for field in ("B", "H"):
                cases.append({"part": "intdtype", "cls": cls, "scale": K, "field": field})
    for cls in FORM_CLASSES:
        for field in ("B", "H", "J", "M"):
            for plen in (1, 3):
                cases.append({"part": "forms", "cls": cls, "field": field, "plen": plen})
    for core in CORES:
        cases.append({"part": "core", "core": core})
    for mask in (1, 0b101001, 0xFFF, 0xFFE):
        for touch in ([], ["getB"], ["mesh"], ["show"], ["getB", "show"]):
            for field in ("B", "H", "J"):
                cases.append({"part": "repaired", "flipmask": mask, "touch": touch, "field": field})
    from mc.props import C01

    for cls in ("Cuboid", "Sphere", "Dipole", "Triangle", "Circle", "Polyline", "Cylinder", "CylinderSegment"):
        for ri in range(len(C01.REGIMES[cls]) if tier == "thorough" else min(3, len(C01.REGIMES[cls]))):
            for exc in ((0, 1, 2, 3) if cls not in ("Circle", "Polyline") else (0, 1)):
                for sd in ((0, 1, 2, 3) if tier == "thorough" else (seed % 4,)):
                    cases.append({"part": "corecells", "cls": cls, "regime": ri, "exc": exc, "seed": sd})
    return cases


def run(tier, seed):
    cases = enumerate_cases(tier, seed)
    res = common.pmap(work, cases)
    viols, harness = [], []
    nforms = 0
    for c, r in zip(cases, res):
        if c["part"] == "forms":
            nforms += 17
        if r is None:
            continue
        if isinstance(r, str) and r.startswith("HARNESS"):
            harness.append(f"{c}: {r}")
            continue
        if c["part"] == "func":
            single = sorted(set(PARTS) - set(c["per"]))
            viols.append({"key": f"C07|functional|{c['cls']}|{r.split(':')[0].split(' ')[0]}|tiled={'+'.join(single) or 'none'}",
                          "what": f"{c}: {r}", "case": c, "observed": r})
        elif c["part"] == "forms":
            for b in r:
                viols.append({"key": f"C07|form|{c['cls']}|{c['field']}|{b.split(':')[0]}", "what": f"{c}: {b}", "case": c, "observed": b})
        elif c["part"] == "intdtype":
            viols.append({"key": f"C07|functional-integer-input|{c['cls']}|scale={c['scale']}|{r.split(' ')[0]}", "what": f"{c}: {r}", "case": c, "observed": r})
        elif c["part"] == "repaired":
            viols.append({"key": f"C07|repaired-mesh|{c['field']}|touch={'+'.join(c['touch']) or 'none'}", "what": f"{c}: {r}", "case": c, "observed": r})
        elif c["part"] == "corecells":
            viols.append({"key": f"C07|corecells|{c['cls']}|regime={c['regime']}|{r.split(' ')[0]}-{r.split(' ')[1]}", "what": f"{c}: {r}", "case": c, "observed": r})
        else:
            viols.append({"key": f"C07|core|{c['core']}", "what": f"{c}: {r}", "case": c, "observed": r})
    n = len(cases) - sum(1 for c in cases if c["part"] == "forms") + nforms
    cov = {
        "evaluations": n, "distinct_nontrivial": n - sum(1 for c in cases if c["part"] == "func" and c["n"] == 1 and not c["per"]),
        "rule": "functional cases: class x n x subset of per-instance parameters x field vs n explicit objects; form cases: 13 call "
                "forms per class x field x path length vs the top-level function; core cases: 9 exported core functions vs objects. "
                "All cases distinct by construction; trivial = n=1 with nothing per-instance",
        "samples": [cases[3], cases[len(cases) // 2], cases[-1]],
        "exhaustive": True,
        "functional_classes": FUNC_CLASSES, "form_classes": FORM_CLASSES, "core_functions": CORES,
    }
    return {"coverage": cov, "violations": viols, "harness_errors": harness[:5],
            "assumptions": ["object-interface evaluation of one explicitly built object at one observer is the reference"]}


def replay(case):
    r = work(case)
    return {"violated": r is not None and not str(r).startswith("HARNESS"), "observed": r}
