"""C08 - field computation never changes objects or inputs, even when it fails.

Fault enumeration: configurations x entry point x fault kind x fault position. Every case is run
on freshly built real objects; a complete snapshot of all involved objects, of every caller array
and of the global defaults is compared before/after, whether the call returned or raised; the call
is then repeated and must give the identical result / the same exception type.
Thorough tier adds call-level injection: the k-th Python-level call executed beneath getBH_level2
raises MemoryError, for every k.
"""
import itertools
import json
import sys

import numpy as np

from mc import common

LEVEL = "fault_enumeration"

SRC_KINDS = ["cub", "tet", "pol", "cus", "col", "mesh", "circ"]
OBS_KINDS = ["arr", "one", "list", "sens3", "sens1", "sensP", "sens2diff", "sensInColl", "sensMixed"]
FIELDS = ["B", "H", "J", "M"]

TET_LEFT = np.array([(0, 0, 0), (1, 0, 0), (0, 0, 1), (0, 1, 0)], float)  # left-handed: reordered in place by the core


# ------------------------------------------------------------------ builders
def path(n, off):
    from scipy.spatial.transform import Rotation as R

    if n == 1:
        return dict(position=(0.1 + off, 0.2, 0.3))
    pos = [(0.1 + off + 0.5 * i, 0.2 - 0.1 * i, 0.3 + 0.2 * i) for i in range(n)]
    ori = R.from_rotvec([(0.1 * i, 0.2, -0.1 * i) for i in range(n)])
    return dict(position=pos, orientation=ori)


def ok_func(field, observers):
    if field in "BH":
        return np.array(observers) * 2.0 + 1.0
    return None


def make_faulty(mode, at=1):
    """field_func that misbehaves from its `at`-th invocation on (counting from 1) once armed"""
    st = {"n": 0, "armed": False}

    def faulty(field, observers):
        st["n"] += 1
        if st["armed"] and st["n"] >= at:
            if mode == "raise":
                raise ValueError("injected field_func failure")
            if mode == "interrupt":   # not an Exception subclass (Ctrl-C during a slow user function)
                raise KeyboardInterrupt("injected interrupt")
            if mode == "none":
                return None
            if mode == "shape":
                return np.zeros((len(observers) + 1, 3))
            if mode == "list":
                return [[0.0, 0.0, 0.0]] * len(observers)
        return np.array(observers) * 3.0

    faulty.state = st
    return faulty


_CALLER_DICTS = []   # style dictionaries handed to constructors in label mode: caller data that must stay as it was
_LABELS = {}         # id(object) -> label given at construction
_TOP_SRCS = []       # the source objects handed to the top-level call (their labels name the dataframe rows)


def _labelled(kw, label, form):
    """construction keywords extended by a label, as caller dictionary (form 'dict') or underscore keyword (form 'kw')"""
    if form == "dict":
        d = {"label": label, "opacity": 0.5}
        _CALLER_DICTS.append(d)
        return dict(kw, style=d)
    return dict(kw, style_label=label)


def mk_source(kind, plen, off, fault=None, label=None):
    import magpylib as magpy

    src = _mk_source(kind, plen, off, fault, label)
    if label:
        _LABELS[id(src)] = label
    return src


def _mk_source(kind, plen, off, fault=None, label=None):
    import magpylib as magpy

    kw = path(plen, off)
    if label:
        kw = _labelled(kw, label, "dict" if int(off) % 4 == 0 else "kw")
    if kind == "meshU":   # a mesh whose checks were all switched off by the user: its status stays "unchecked"
        v = [(0, 0, 0), (1, 0, 0), (0, 1, 0), (0, 0, 1)]
        f = [(0, 2, 1), (0, 1, 3), (0, 3, 2), (1, 2, 3)]
        return magpy.magnet.TriangularMesh(vertices=v, faces=f, polarization=(0, 0.5, 1), check_open="skip", check_disconnected="skip",
                                           check_selfintersecting="skip", reorient_faces="skip", **kw)
    dim_none = fault == "dim_none"
    exc_none = fault == "exc_none"
    if kind == "cub":
        return magpy.magnet.Cuboid(dimension=None if dim_none else (1, 2, 3),
                                   polarization=None if exc_none else (0.1, 0.2, 0.3), **kw)
    if kind == "tet":
        return magpy.magnet.Tetrahedron(vertices=None if dim_none else TET_LEFT.copy(),
                                        polarization=None if exc_none else (0.3, 0.2, 0.1), **kw)
    if kind == "pol":
        return magpy.current.Polyline(vertices=None if dim_none else [(0, 0, 0), (1, 1, 0), (1, 2, 3)],
                                      current=None if exc_none else 2.0, **kw)
    if kind == "circ":
        return magpy.current.Circle(diameter=None if dim_none else 2.0, current=None if exc_none else 1.5, **kw)
    if kind == "mesh":
        v = [(0, 0, 0), (1, 0, 0), (0, 1, 0), (0, 0, 1)]
        f = [(0, 1, 2), (0, 1, 3), (0, 2, 3), (1, 2, 3)]
        return magpy.magnet.TriangularMesh(vertices=v, faces=f, polarization=None if exc_none else (0, 0.5, 1), **kw)
    if kind == "cus":
        if fault == "ff_missing":
            return magpy.misc.CustomSource(field_func=None, **kw)
        if fault in FF_MODES:
            ff = make_faulty(FF_MODES[fault])
            src = magpy.misc.CustomSource(field_func=ff, **kw)
            ff.state.update(armed=True, n=0)
            return src
        return magpy.misc.CustomSource(field_func=ok_func, **kw)
    if kind == "col":
        ka, kb, kc = path(plen, off + 1), path(1, off + 2), path(1 if plen == 1 else 2, off)
        if label:
            ka, kb, kc = _labelled(ka, label + "-a", "kw"), _labelled(kb, label + "-b", "dict"), _labelled(kc, label, "dict")
        a = magpy.magnet.Sphere(diameter=1, polarization=(1, 0, 0), **ka)
        b = magpy.current.Circle(diameter=1, current=1, **kb)
        if label:
            _LABELS[id(a)], _LABELS[id(b)] = label + "-a", label + "-b"
        return magpy.Collection(a, b, **kc)
    raise AssertionError(kind)


def mk_observers(kind, plen, label=None):
    """returns (observers argument, list of Sensor/Collection objects involved, caller arrays)"""
    obs, objs, arrs = _mk_observers(kind, plen)
    if label:
        import magpylib as magpy

        # same observers, but every Sensor / Collection was constructed with a (pending, never looked at) label
        def relabel(o, i):
            kw = dict(position=o._position.copy(), orientation=o._orientation)
            lab = f"{label}{i}"
            if isinstance(o, magpy.Sensor):
                n = magpy.Sensor(pixel=o.pixel, handedness=o.handedness, **_labelled(kw, lab, "kw" if i % 2 == 0 else "dict"))
            else:
                n = magpy.Collection(**_labelled(kw, lab, "dict"))
            _LABELS[id(n)] = lab
            return n
        mapping = {id(o): relabel(o, i) for i, o in enumerate(objs)}
        for o in objs:
            if hasattr(o, "_children"):
                for ch in o._children:
                    mapping[id(o)].add(mapping[id(ch)])
        sub = lambda x: mapping.get(id(x), x)
        obs = [sub(x) for x in obs] if isinstance(obs, list) else sub(obs)
        objs = [mapping[id(o)] for o in objs]
    return obs, objs, arrs


def _mk_observers(kind, plen):
    import magpylib as magpy

    if kind == "arr":
        a = np.array([(1.0, 2, 3), (-1, 0.5, 2)])
        return a, [], [a]
    if kind == "one":   # a single observer row: no tiling / repeating of source properties takes place
        a = np.array((1.0, 2.0, 3.0))
        return a, [], [a]
    if kind == "list":
        l = [[1.0, 2, 3], [-1, 0.5, 2]]
        return l, [], [l]
    if kind == "sens3":   # one bare pixel position of shape (3,)
        s = magpy.Sensor(pixel=(0.1, 0.2, 0.3), position=(2, 2, 2))
        return s, [s], []
    if kind == "sens1":
        pix = np.array([(0.0, 0, 0), (0.1, 0, 0)])
        s = magpy.Sensor(pixel=pix, position=(2, 2, 2))
        return s, [s], [pix]
    if kind == "sensP":
        s = magpy.Sensor(pixel=[(0.0, 0, 0), (0.1, 0, 0)], handedness="left", **path(plen, 3))
        return s, [s], []
    if kind == "sens2diff":
        s1 = magpy.Sensor(pixel=[(0.0, 0, 0), (0.1, 0, 0)], **path(plen, 3))
        s2 = magpy.Sensor(pixel=[[(0.0, 0, 0.1)] * 3] * 2, position=(3, 3, 3))
        return [s1, s2], [s1, s2], []
    if kind == "sensInColl":
        s = magpy.Sensor(**path(plen, 3))
        s2 = magpy.Sensor(position=(4, 4, 4))
        c = magpy.Collection(s, s2, position=(1, 1, 1))
        top = magpy.Collection(c)
        return c, [s, s2, c, top], []
    if kind == "sensMixed":
        s = magpy.Sensor(**path(plen, 3))
        l = [s, (1.0, 2.0, 3.0)]
        return l, [s], [l[1]]
    raise AssertionError(kind)


# ------------------------------------------------------------------ snapshot
GEO_ATTRS = ("dimension", "diameter", "vertices", "faces", "mesh", "polarization", "magnetization", "current",
             "moment", "pixel", "handedness", "status_open", "status_open_data", "status_disconnected", "status_disconnected_data",
             "status_selfintersecting", "status_selfintersecting_data", "status_reoriented")


def all_objects(objs):
    out, seen = [], set()
    stack = list(objs)
    while stack:
        o = stack.pop(0)
        if id(o) in seen:
            continue
        seen.add(id(o))
        out.append(o)
        stack.extend(getattr(o, "_children", []))
        if getattr(o, "_parent", None) is not None:
            stack.append(o._parent)
    return out


def arr_sig(a):
    if a is None:
        return None
    a = np.asarray(a)
    return (a.dtype.str, a.shape, a.tobytes())


def tree_sig(st):
    """signature of a style / defaults tree read from the instance dictionaries (as_dict() enumerates dir() at every node, which
    dominated the cost of a case); equal trees <=> equal as_dict() because every leaf is stored as '_<name>' on its node"""
    out = []
    for k, v in sorted(vars(st).items()):
        if hasattr(v, "as_dict") and hasattr(v, "update"):
            out.append((k, tree_sig(v)))
        elif isinstance(v, (list, tuple)) and any(hasattr(x, "as_dict") for x in v):
            out.append((k, tuple(tree_sig(x) if hasattr(x, "as_dict") else repr(x) for x in v)))
        elif isinstance(v, np.ndarray):
            out.append((k, arr_sig(v)))
        else:
            out.append((k, repr(v)))
    return tuple(out)


def snapshot(objs, with_style=True):
    names = {id(o): i for i, o in enumerate(objs)}
    snap = []
    for o in objs:
        d = {"pos": arr_sig(o._position), "ori": arr_sig(o._orientation.as_quat()),
             "ori_single": bool(o._orientation.single),
             "parent": names.get(id(o._parent), "ext") if o._parent is not None else None}
        for a in GEO_ATTRS:
            if hasattr(o, "_" + a) or hasattr(type(o), a):
                try:
                    v = getattr(o, "_" + a) if hasattr(o, "_" + a) else getattr(o, a)
                except Exception:
                    continue
                d[a] = arr_sig(v) if isinstance(v, (np.ndarray, list, tuple)) else v
        if hasattr(o, "_children"):
            for a in ("_children", "_sources", "_sensors", "_collections"):
                d[a] = [names.get(id(c), "ext") for c in getattr(o, a)]
        if hasattr(o, "_field_func"):
            d["field_func"] = id(o._field_func)
        if with_style == "lazy":
            # do not look at .style (that would create it and consume the pending keywords): the effective own style is computed
            # on the side - a copy of the style object if there is one, else a new one, with the pending keywords applied.
            # Lazy creation of the style object by the library is thereby not a change; losing or altering a pending value is.
            import copy as _copy

            st = _copy.deepcopy(getattr(o, "_style", None))
            if st is None:
                st = o._style_class()
            if o._style_kwargs:
                st.update(_copy.deepcopy(o._style_kwargs))
            d["style_effective"] = tree_sig(st)
        elif with_style:
            d["style"] = tree_sig(o.style)
            d["style_kwargs"] = json.dumps(o._style_kwargs, sort_keys=True, default=repr)
        snap.append(d)
    return snap


def caller_sig(arrs):
    out = []
    for a in arrs:
        if isinstance(a, np.ndarray):
            out.append(arr_sig(a))
        else:
            out.append(json.dumps(a, default=repr))
    return out


def defaults_sig():
    import magpylib as magpy

    return tree_sig(magpy.defaults)


# ------------------------------------------------------------------ one case
def build_case(case):
    """returns (callable performing the field call, involved objects, caller arrays)"""
    import magpylib as magpy

    del _CALLER_DICTS[:]
    _LABELS.clear()

    fault = case["fault"]
    srcs = []
    ncus = 0
    for i, (kind, plen) in enumerate(case["srcs"]):
        f = None
        if fault in ("dim_none", "exc_none") and i == case.get("fault_at", 0):
            f = fault
        if kind == "cus" and fault and fault.startswith("ff_"):
            ncus += 1
            if ncus == case.get("fault_at", 1):
                f = fault
        srcs.append(mk_source(kind, plen, 2.0 * i, f, label=f"SRC{i}" if case.get("lazy") else None))
    if case.get("dup"):
        srcs.append(srcs[0])
    obs, obs_objs, arrs = mk_observers(case["obs"], case["obs_plen"], label="SENS" if case.get("lazy") else None)
    if case.get("lazy"):
        arrs = list(arrs) + list(_CALLER_DICTS)
    kw = {}
    if fault == "agg_bad":
        kw["pixel_agg"] = "nonexistent_function"
    elif fault == "agg_argmax":
        kw["pixel_agg"] = "argmax"
    elif fault == "agg_nonreduce":
        kw["pixel_agg"] = "abs"
    elif case["obs"] == "sens2diff" and fault != "pix_unequal":
        kw["pixel_agg"] = "mean"
    elif case.get("agg"):
        kw["pixel_agg"] = case["agg"]
    if fault == "output_bad":
        kw["output"] = "xml"
    if fault == "output_df" or case.get("df"):
        kw["output"] = "dataframe"
    if not case.get("squeeze", True):
        kw["squeeze"] = False
    entry = case["entry"]
    field = case["field"]
    name = "get" + field
    top_kw = dict(kw)
    if fault == "inout_bad":
        top_kw["in_out"] = "sideways"
    if fault == "inout_inside":
        top_kw["in_out"] = "inside"
    if fault == "kwargs_mixed":
        top_kw["dimension"] = (1, 2, 3)
    if case.get("sumup"):
        top_kw["sumup"] = True
    if fault == "obs_bad":
        obs = "not observers"
    if fault == "obs_shape":
        obs = [(1.0, 2.0), (3.0, 4.0)]
    if fault == "src_bad":
        srcs = srcs + ["not a source"]
    if fault == "src_empty_coll":
        srcs = srcs + [magpy.Collection()]
    if entry == "top":
        src_arg = srcs if (len(srcs) > 1 or case.get("aslist")) else srcs[0]
        call = lambda: getattr(magpy, name)(src_arg, obs, **top_kw)
    elif entry == "src":
        call = lambda: getattr(srcs[0], name)(obs, **{k: v for k, v in top_kw.items() if k != "sumup"})
    elif entry == "sens":
        call = lambda: getattr(obs_objs[0], name)(*srcs, **{k: v for k, v in top_kw.items()})
    elif entry == "coll":
        coll = magpy.Collection(*[s for s in srcs if not isinstance(s, str)])
        call = lambda: getattr(coll, name)(obs, **kw)
        srcs = srcs + [coll]
    else:
        raise AssertionError(entry)
    involved = all_objects([s for s in srcs if not isinstance(s, str)] + obs_objs)
    _TOP_SRCS[:] = [coll] if entry == "coll" else [s for s in srcs if not isinstance(s, str)]
    return call, involved, arrs


def result_sig(r, labels=False):
    if isinstance(r, np.ndarray):
        return ("ndarray", r.shape, r.tobytes())
    try:
        import pandas as pd

        if isinstance(r, pd.DataFrame):
            # source/sensor columns hold reprs with id() of temporaries: compare structure and numbers
            num = r.select_dtypes("number")
            if labels:   # all objects were labelled at construction: the source / sensor columns are stable texts
                import re

                norm = lambda col: tuple(re.sub(r"id=\d+", "id=#", str(x)) for x in col)   # temporaries show their id()
                return ("df", tuple(r.columns), r.shape, num.to_numpy(dtype=float).tobytes(), norm(r["source"]), norm(r["sensor"]))
            return ("df", tuple(r.columns), r.shape, num.to_numpy(dtype=float).tobytes())
    except Exception:
        pass
    return ("other", repr(r))


def diff_snap(a, b):
    out = []
    for i, (x, y) in enumerate(zip(a, b)):
        for k in x:
            if x[k] != y.get(k):
                what = k
                if k in ("pos", "ori") and x[k] and y.get(k):
                    what = f"{k}:{x[k][1]}->{y[k][1]}"
                out.append(f"obj{i}.{what}")
    return out


def _warn_sig(rec):
    import re

    return sorted((w.category.__name__, re.sub(r"id=\d+", "id=#", str(w.message))[:200]) for w in rec)


def run_case(case, inject_k=None):
    """returns dict(outcome, problems[], ncalls)"""
    import warnings

    call, involved, arrs = build_case(case)
    # default: materialise styles first so the snapshot itself is not the first access; lazy: never look at .style before the
    # calls (objects carry pending style keywords - labels - that the computation must leave pending and unconsumed)
    mode = "lazy" if case.get("lazy") else True
    before = snapshot(involved, mode)
    cbefore = caller_sig(arrs)
    dbefore = defaults_sig()
    problems = []
    ncalls = None
    try:
        with warnings.catch_warnings(record=True) as rec1:
            warnings.simplefilter("always")
            if inject_k is None:
                with common.time_limit(60):
                    r = call()
            else:
                r, ncalls = traced_call(call, inject_k)
        outcome = "ok"
        sig1 = result_sig(r, labels=bool(case.get("lazy")))
    except common.CaseTimeout:
        return {"outcome": "timeout", "problems": ["timeout"], "ncalls": None}
    except InjectedFault:
        outcome = "InjectedFault"
        sig1 = None
    except BaseException as e:
        outcome = type(e).__name__
        sig1 = None
    after = snapshot(involved, mode)
    d = diff_snap(before, after)
    if d:
        problems.append("objects changed: " + ",".join(d[:6]))
    if caller_sig(arrs) != cbefore:
        problems.append("caller array changed")
    if defaults_sig() != dbefore:
        problems.append("global defaults changed")
    if inject_k is None and not problems:
        # second identical call
        for o in involved:
            ff = getattr(o, "_field_func", None)
            if hasattr(ff, "state"):
                ff.state["n"] = 0
        try:
            with warnings.catch_warnings(record=True) as rec2:
                warnings.simplefilter("always")
                r2 = call()
            out2, sig2 = "ok", result_sig(r2, labels=bool(case.get("lazy")))
        except BaseException as e:
            out2, sig2 = type(e).__name__, None
        if out2 != outcome or sig2 != sig1:
            problems.append(f"second call differs: {outcome} -> {out2}")
        elif outcome == "ok" and _warn_sig(rec1) != _warn_sig(rec2):
            problems.append(f"second call warns differently: {_warn_sig(rec1)[:2]} -> {_warn_sig(rec2)[:2]}")
        if diff_snap(before, snapshot(involved, mode)):
            problems.append("objects changed by second call")
    if not problems and case.get("lazy"):
        # now look: every object still has the label it was constructed with, in the result table and in its style
        for o in involved:
            lab = _LABELS.get(id(o))
            if lab is not None and o.style.label != lab:
                problems.append(f"label lost: {type(o).__name__} constructed with label {lab!r} has style.label={o.style.label!r} after the field calls")
                break
        if not problems and outcome == "ok" and sig1[0] == "df":
            import magpylib as magpy

            for o in involved:
                lab = _LABELS.get(id(o))
                if lab is None:
                    continue
                col = 5 if isinstance(o, magpy.Sensor) else 4 if any(o is t for t in _TOP_SRCS) else None
                if col is not None and lab not in sig1[col]:
                    problems.append(f"dataframe does not show the label given at construction: {type(o).__name__} {lab!r} missing in the {'sensor' if col == 5 else 'source'} column")
                    break
    if not problems:
        problems += probe_futures(case, involved, arrs, r if outcome == "ok" else None)
    return {"outcome": outcome, "problems": problems, "ncalls": ncalls}


PROBE_FAULTS = ("none", "ff_raise", "ff_interrupt", "exc_none", "agg_argmax")  # twin-history probe; buffer flags/aliasing are checked always


def probe_futures(case, involved, arrs, result):
    """Differential oracle: the objects that went through the field call must have the same futures as
    freshly built twins that did not (hidden changes: read-only or shared buffers, aliasing with the
    caller's arrays or with the returned array). The probe is a fixed short history of in-place operations."""
    problems = []
    bufs = [("obj%d.position" % i, o._position) for i, o in enumerate(involved)]
    for i, o in enumerate(involved):
        if not o._position.flags.writeable:
            problems.append(f"hidden change: obj{i}._position is read-only after the call")
    ext = [a for a in arrs if isinstance(a, np.ndarray)]
    if isinstance(result, np.ndarray):
        ext = ext + [result]
    for name, b in bufs:
        for e in ext:
            if np.shares_memory(b, e):
                problems.append(f"hidden change: {name} shares memory with a caller/result array")
    for (n1, b1), (n2, b2) in itertools.combinations(bufs, 2):
        if np.shares_memory(b1, b2):
            problems.append(f"hidden change: {n1} shares memory with {n2}")
    if problems:
        return problems[:3]
    if case.get("fault") not in PROBE_FAULTS:
        return problems
    _, twins, _ = build_case(case)
    if len(twins) != len(involved):
        return ["HARNESS twin mismatch"]

    def history(objs):
        out = []
        for o in objs:
            try:
                o.move((0.25, -0.5, 0.125))
                o.rotate_from_angax(30, (1, 2, 3), anchor=(1, 0, 0))
                o.move([(0.5, 0, 0), (0, 0.5, 0)])
                out.append("ok")
            except Exception as e:
                out.append(f"{type(e).__name__}: {e}"[:80])
        return out

    h1, h2 = history(involved), history(twins)
    if h1 != h2:
        problems.append(f"hidden change: in-place operations after the call behave differently: {h1} vs twins {h2}")
    else:
        d = [x for x in diff_snap(snapshot(twins, with_style=False), snapshot(involved, with_style=False))
             if not x.endswith(".field_func")]
        if d:
            problems.append("hidden change: same operations lead to different states than on fresh twins: " + ",".join(d[:4]))
    return problems


# ------------------------------------------------------------------ call-level injection
class InjectedFault(MemoryError):
    pass


_FINAL_RANGES = None


def restore_line_ranges():
    """line ranges of `finally:` bodies inside getBH_level2 (the restore step is not a fault point)"""
    global _FINAL_RANGES
    if _FINAL_RANGES is None:
        import ast
        import inspect
        import textwrap

        from magpylib._src.fields import field_wrap_BH as m

        src, first = inspect.getsourcelines(m.getBH_level2)
        tree = ast.parse(textwrap.dedent("".join(src)))
        rng = []
        for node in ast.walk(tree):
            if isinstance(node, ast.Try) and node.finalbody:
                a = node.finalbody[0].lineno + first - 1
                b = max(getattr(x, "end_lineno", x.lineno) for x in node.finalbody) + first - 1
                rng.append((a, b))
        _FINAL_RANGES = rng
    return _FINAL_RANGES


def traced_call(call, k):
    """run call(); the k-th Python-level 'call' event beneath getBH_level2 raises InjectedFault.
    k=0: only count. Returns (result, number of call events)."""
    state = {"depth": 0, "n": 0, "active": False}
    finals = restore_line_ranges()

    def tracer(frame, event, arg):
        if event != "call":
            return None
        code = frame.f_code
        if not state["active"]:
            if code.co_name == "getBH_level2":
                state["active"] = True
                state["root"] = frame

                def local(fr, ev, ar):
                    if ev == "return" and fr is state["root"]:
                        state["active"] = False
                    return local

                return local
            return None
        if code.co_flags & 0x20:  # generator frames: raising there is reported via the consumer
            return None
        ln = state["root"].f_lineno
        if any(a <= ln <= b for a, b in finals):  # inside the restore step
            return None
        state["n"] += 1
        if k and state["n"] == k:
            state["where"] = f"{code.co_filename.split('/')[-1]}:{code.co_name}"
            raise InjectedFault(f"injected at call {k}")
        return None

    old = sys.gettrace()
    sys.settrace(tracer)
    try:
        r = call()
    finally:
        sys.settrace(old)
    return r, state["n"]


# ------------------------------------------------------------------ enumeration
FF_MODES = {"ff_interrupt": "interrupt", "ff_raise": "raise", "ff_retnone": "none", "ff_shape": "shape", "ff_list": "list"}
PUBLIC_FAULTS = ["none", "output_df", "dim_none", "exc_none", "ff_missing", "ff_interrupt", "ff_raise", "ff_retnone", "ff_shape",
                 "ff_list", "agg_bad", "agg_argmax", "agg_nonreduce", "output_bad", "inout_bad", "inout_inside",
                 "pix_unequal", "kwargs_mixed", "obs_bad", "obs_shape", "src_bad", "src_empty_coll"]
def enumerate_cases(tier):
    plens = [1, 3] if tier == "quick" else [1, 2, 3]
    maxlen = 2 if tier == "quick" else 3
    cases = []
    kinds = SRC_KINDS
    lists = []
    for n in range(1, maxlen + 1):
        pool = kinds if n < 3 else ["cub", "tet", "cus", "col"]
        for ks in itertools.product(pool, repeat=n):
            for pl in itertools.product(plens, repeat=n):
                lists.append(list(zip(ks, pl)))
    # the unchecked mesh alone and next to another source
    lists += [[("meshU", pl)] for pl in plens] + [[("meshU", 1), ("cub", plens[-1])], [("tet", 1), ("meshU", plens[-1])], [("meshU", 1), ("meshU", 1)]]
    if tier == "quick":  # intermediate path lengths (1 < own length < longest) also in the quick tier
        lists += [[(k, 2)] for k in kinds] + [[(k, 2), ("cub", 3)] for k in ("cub", "col", "cus")]
    for srcs in lists:
        has_cus = sum(1 for k, _ in srcs if k == "cus")
        for obs in OBS_KINDS:
            for obs_plen in ([1, 2, 3] if obs == "sensP" else [1, 3] if obs in ("sens2diff", "sensInColl", "sensMixed") else [1]):
                if len(srcs) == 3 and obs not in ("arr", "one", "sensP"):
                    continue
                for fault in PUBLIC_FAULTS:
                    fault_ats = [None]
                    if fault.startswith("ff_"):
                        if not has_cus:
                            continue
                        fault_ats = list(range(1, has_cus + 1))
                    if fault in ("dim_none", "exc_none"):
                        fault_ats = [i for i, (k, _) in enumerate(srcs)
                                     if k in ("cub", "tet", "pol", "circ") or (k == "mesh" and fault == "exc_none")]
                        if not fault_ats:
                            continue
                    if fault == "pix_unequal" and obs != "sens2diff":
                        continue
                    if fault in ("agg_argmax", "agg_nonreduce") and obs in ("arr", "list"):
                        pass
                    for fa in fault_ats:
                        for field in (FIELDS if fault in ("none", "ff_retnone") else ["B"] if fault != "ff_missing" else ["H"]):
                            if field in "JM" and has_cus and fault == "none":
                                pass  # CustomSource has no J/M: MagpylibMissingInput after tiling, a natural fault
                            entries = ["top"]
                            if len(srcs) == 1 and fault in ("none", "output_df", "ff_raise", "agg_argmax", "output_bad"):
                                entries.append("src")
                            if obs in ("sens1", "sens3", "sensP") and fault in ("none", "ff_raise", "ff_retnone", "output_bad", "agg_argmax"):
                                entries.append("sens")
                            if obs in ("arr", "one", "sens1") and fault in ("none", "ff_shape", "output_df"):
                                entries.append("coll")     # also with a nested collection among the sources
                            for entry in entries:
                                c = {"srcs": srcs, "obs": obs, "obs_plen": obs_plen, "fault": fault,
                                     "entry": entry, "field": field}
                                if fa is not None:
                                    c["fault_at"] = fa
                                cases.append(c)
                                if field == "B" and (fault == "output_df" or (fault == "none" and (len(srcs) == 1 or tier != "quick"))) and len(srcs) < 3:
                                    cases.append(dict(c, lazy=True))
                                if fault == "none" and field == "B" and entry == "top":
                                    cases.append(dict(c, squeeze=False, sumup=True))
                                    cases.append(dict(c, dup=True))
                                    if obs in ("sens1", "sensP"):
                                        cases.append(dict(c, agg="max"))
    return cases


def functional_cases():
    """functional interface: caller arrays must be untouched (incl. left-handed tetrahedra, n >= 2)"""
    cases = []
    for cls in ("Tetrahedron", "Cuboid", "Polyline", "Circle", "Triangle", "Dipole", "Cylinder", "CylinderSegment", "Sphere"):
        for n in (1, 2, 3):
            for dtype in ("float", "int", "list"):
                for field in ("B", "H"):
                    cases.append({"functional": cls, "n": n, "dtype": dtype, "field": field})
    from mc.props import C07

    cases += [{"core": name} for name in C07.CORES]
    return cases


def run_core_case(case):
    """exported core functions: the caller's input arrays must come back unchanged"""
    from magpylib import core as _core

    from mc.props import C07

    probe = C07.CoreProxy(_core)
    C07.run_core({"core": case["core"]}, probe=probe)
    problems = []
    if probe.mutated:
        problems.append(f"caller array changed: {sorted(set(probe.mutated))}")
    if probe.second_differs:
        problems.append("second call differs")
    if probe.layout_differs:
        problems.append(f"result depends on the memory layout of the caller's arrays: {sorted(set(probe.layout_differs))}")
    return {"outcome": "ok", "problems": problems, "ncalls": None}


N_QUAT = 400


def run_quat_case(case):
    """orientations in generic position (400 deterministic pseudo-random unit quaternions per path step): an object whose path is
    shorter than the longest one of the call is padded and cut back - afterwards its stored quaternions must be the same BITS
    (re-normalising a stored unit quaternion may change its last digit), and the repeated call must give the identical array"""
    import magpylib as magpy
    from scipy.spatial.transform import Rotation as R

    k = case["quat"]
    x = np.modf(np.sin(np.arange(1, 13) * (k + 1) * 12.9898) * 43758.5453)[0]
    q = x[:8].reshape(2, 4) * 2.0 + np.array((0.3, -0.2, 0.1, 0.05))
    src = magpy.magnet.Cuboid(dimension=(1, 1.2, 0.8), polarization=(0.1, 0.2, 0.3), position=[(0, 0, 0), (1, 0, 0)], orientation=R.from_quat(q))
    sens = magpy.Sensor(position=np.linspace((0, 0, 2), (1, 0, 2), 4), orientation=R.from_quat(x[8:12] + 0.1))
    coll = magpy.Collection(magpy.misc.Dipole(moment=(1, 2, 3), position=(0.5, 0.5, 0.5), orientation=R.from_quat(q[0] * 0.7 + 0.2)))
    objs = [src, sens, coll, coll.children[0]]
    before = [(o._position.tobytes(), o._orientation.as_quat().tobytes()) for o in objs]
    B1 = magpy.getB([src, coll], sens)
    after = [(o._position.tobytes(), o._orientation.as_quat().tobytes()) for o in objs]
    problems = []
    for name, b, a in zip(("source", "sensor", "collection", "child"), before, after):
        if b != a:
            problems.append(f"objects changed: stored path of the {name} differs in its last digits after getB (padded and cut back)")
            break
    B2 = magpy.getB([src, coll], sens)
    if not problems and not np.array_equal(B1, B2):
        problems.append("second call differs")
    return {"outcome": "ok", "problems": problems, "ncalls": None}


def run_functional(case):
    import magpylib as magpy

    n, cls = case["n"], case["functional"]
    rng = np.arange(n * 3, dtype=float).reshape(n, 3)
    par = {
        "Tetrahedron": dict(vertices=np.array([TET_LEFT * (1 + i) for i in range(n)]), polarization=rng + 1),
        "Cuboid": dict(dimension=rng + 1, polarization=rng + 1),
        "Polyline": dict(segment_start=rng, segment_end=rng + 2, current=np.arange(n) + 1.0),
        "Circle": dict(diameter=np.arange(n) + 1.0, current=np.arange(n) + 1.0),
        "Triangle": dict(vertices=np.array([TET_LEFT[:3] * (1 + i) for i in range(n)]), polarization=rng + 1),
        "Dipole": dict(moment=rng + 1),
        "Cylinder": dict(dimension=rng[:, :2] + 1, polarization=rng + 1),
        "CylinderSegment": dict(dimension=np.array([(1.0, 2, 1, 0, 90 + i) for i in range(n)]), polarization=rng + 1),
        "Sphere": dict(diameter=np.arange(n) + 1.0, polarization=rng + 1),
    }[cls]
    par["position"] = rng * 0.1
    obs = rng + 5.0
    if case["dtype"] == "int":
        par = {k: np.round(v).astype(int) if k not in ("vertices", "dimension") else v for k, v in par.items()}
    if case["dtype"] == "list":
        par = {k: v.tolist() for k, v in par.items()}
        obs = obs.tolist()
    arrs = list(par.values()) + [obs]
    before = caller_sig(arrs)
    try:
        r = getattr(magpy, "get" + case["field"])(cls, obs, **par)
        outcome = "ok"
    except Exception as e:
        outcome = type(e).__name__
        r = None
    problems = []
    if caller_sig(arrs) != before:
        changed = [k for k, b, a in zip(list(par) + ["observers"], before, caller_sig(arrs)) if a != b]
        problems.append(f"caller array changed: {changed}")
    if outcome == "ok":
        r2 = getattr(magpy, "get" + case["field"])(cls, obs, **par)
        if result_sig(r2) != result_sig(r):
            problems.append("second call differs")
    return {"outcome": outcome, "problems": problems, "ncalls": None}


def work(case):
    try:
        if "core" in case:
            return run_core_case(case)
        if "functional" in case:
            return run_functional(case)
        if "quat" in case:
            return run_quat_case(case)
        return run_case(case)
    except Exception as e:
        return {"outcome": "HARNESS", "problems": [], "harness": f"{type(e).__name__}: {e}"[:300], "ncalls": None}


def warm(case):
    """run the un-faulted call once so that caches are warm and call counts are reproducible"""
    call, _, _ = build_case(case)
    try:
        call()
    except Exception:
        pass


def work_inject(args):
    case, k = args
    try:
        warm(case)
        return run_case(case, inject_k=k)
    except Exception as e:
        return {"outcome": "HARNESS", "problems": [], "harness": f"{type(e).__name__}: {e}"[:300], "ncalls": None}


def vkey(case, res):
    if "core" in case:
        return f"C08|core|{case['core']}|{res['problems'][0].split(':')[0]}"
    if "functional" in case:
        return f"C08|functional|{case['functional']}|{res['problems'][0].split(':')[0]}"
    if "quat" in case:
        return f"C08|generic-orientation|{res['problems'][0].split(':')[0]}"
    kind = res["problems"][0].split(":")[0]
    return f"C08|{case['fault']}|{case['entry']}|{res['outcome']}|{kind}"


INJECT_CONFIGS = [
    {"srcs": [("cub", 1)], "obs": "sensP", "obs_plen": 3, "fault": "none", "entry": "top", "field": "B"},
    {"srcs": [("cub", 3), ("tet", 1)], "obs": "sens1", "obs_plen": 1, "fault": "none", "entry": "top", "field": "H"},
    {"srcs": [("col", 3), ("cus", 1)], "obs": "sens2diff", "obs_plen": 1, "fault": "none", "entry": "top", "field": "B"},
    {"srcs": [("pol", 1), ("mesh", 2)], "obs": "sensInColl", "obs_plen": 3, "fault": "none", "entry": "top", "field": "B"},
    {"srcs": [("circ", 2)], "obs": "sensP", "obs_plen": 3, "fault": "output_df", "entry": "src", "field": "B"},
    {"srcs": [("cus", 2), ("cub", 1)], "obs": "arr", "obs_plen": 1, "fault": "none", "entry": "coll", "field": "H"},
]


def run(tier, seed):
    cases = enumerate_cases(tier) + functional_cases() + [{"quat": k} for k in range(N_QUAT)]
    res = common.pmap(work, cases)
    viols, harness = [], []
    outcomes = {}
    nontrivial = set()
    for c, r in zip(cases, res):
        outcomes[r["outcome"]] = outcomes.get(r["outcome"], 0) + 1
        if r.get("harness"):
            harness.append(f"{c}: {r['harness']}")
            continue
        if "functional" not in c and "core" not in c and "quat" not in c:
            lens = {pl for _, pl in c["srcs"]} | {c["obs_plen"]}
            if len(lens) > 1 or c["fault"] != "none":
                nontrivial.add(json.dumps(c, sort_keys=True))
        else:
            nontrivial.add(json.dumps(c, sort_keys=True))
        if r["problems"]:
            viols.append({"key": vkey(c, r), "what": f"{c} -> {r['outcome']}: {r['problems']}", "case": {"case": c},
                          "observed": r})
    # call-level injection
    inj_total, inj_points = 0, {}
    if True:
        configs = INJECT_CONFIGS if tier == "thorough" else INJECT_CONFIGS[:3]
        jobs = []
        for ci, c in enumerate(configs):
            warm(c)
            call, involved, arrs = build_case(c)
            _, n = traced_call(call, 0)
            inj_points[ci] = n
            jobs += [(c, k) for k in range(1, n + 1)]
        rinj = common.pmap(work_inject, jobs)
        inj_total = len(jobs)
        for (c, k), r in zip(jobs, rinj):
            outcomes["inj:" + r["outcome"]] = outcomes.get("inj:" + r["outcome"], 0) + 1
            if r.get("harness"):
                harness.append(f"inject {c} k={k}: {r['harness']}")
            elif r["problems"]:
                viols.append({"key": f"C08|inject|{c['entry']}|{r['problems'][0].split(':')[0]}",
                              "what": f"call-level fault k={k} in {c}: {r['problems']}",
                              "case": {"case": c, "inject_k": k}, "observed": r})
    if len(harness) > 0:
        harness = harness[:5] + ([f"... {len(harness)} harness errors"] if len(harness) > 5 else [])
    cov = {
        "evaluations": len(cases) + inj_total,
        "distinct_nontrivial": len(nontrivial) + inj_total,
        "rule": "one evaluation = one field call on freshly built objects with full before/after snapshot and a "
                "repeated call; non-trivial = a fault is injected or objects in the call have different path "
                "lengths (so that tiling + restore is exercised); call-level injection points are all non-trivial",
        "samples": [cases[0], cases[len(cases) // 2], cases[-1]],
        "exhaustive": True,
        "distinct_outcomes": outcomes,
        "fault_kinds": PUBLIC_FAULTS,
        "call_level_injection_points": inj_points,
        "call_level_injections": inj_total,
    }
    if len(outcomes) < 4:
        harness.append("vacuous: fewer than 4 distinct outcomes")
    return {"coverage": cov, "violations": viols, "harness_errors": harness,
            "assumptions": ["faults are not injected into the statements that restore the paths",
                            "style is compared through style.as_dict(); lazy creation of the style object is not a change"]}


def replay(case):
    c = case["case"]
    if "inject_k" in case:
        r = work_inject((c, case["inject_k"]))
    else:
        r = work(c)
    return {"violated": bool(r["problems"]), "observed": {"outcome": r["outcome"], "problems": r["problems"]}}
