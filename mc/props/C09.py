"""C09 - move/rotate and the pose setters follow the documented path semantics.

Explicit-state BFS over the real move/rotate/setter API, every transition compared with the
reference path model (mc/oracles/pathmodel.py). States are rebuilt from their exact arrays.
Parts: (A) exact BFS, (B) nine rotate_from_* forms per rotate transition, (C) rejected calls change
nothing, (D) integer box on the padding arithmetic seam, (E) path-length abstraction to fixpoint.
"""
import itertools

import numpy as np

from mc import common
from mc.oracles.pathmodel import PathModel, pad_params

LEVEL = "model_checking"
TOL = 1e-11

# ------------------------------------------------------------------ alphabets (pure data)
D = {"s": (1.0, 2, 3), "v1": [(1.0, 2, 3)], "v2": [(1.0, 2, 3), (0, -1, 0.5)],
     "v3": [(1.0, 2, 3), (0, -1, 0.5), (0.3, 0.3, 0.3)]}
RV = np.array([(0.2, -0.4, 0.1), (0, 0.3, 0.3), (1.0, 0, 0.2)])
ROT = {"s": RV[0], "v1": RV[:1], "v2": RV[:2], "v3": RV, "None": None}   # None = the documented unit rotation (scalar input)
AN = {"N": None, "0": 0, "s": (1.0, 1, 1), "v1": [(1.0, 1, 1)], "v2": [(1.0, 1, 1), (0, 2, 0)],
      "v3": [(1.0, 1, 1), (0, 2, 0), (-1, 0, 1)],
      # numpy arrays as anchors, also all-zero ones: the shape decides between scalar and vector input, not the values
      "zs": np.zeros(3), "z1": np.zeros((1, 3)), "z2": np.zeros((2, 3)), "nd2": np.array([(1.0, 1, 1), (0, 2, 0)])}
STARTS = ["auto"] + list(range(-6, 7))
STARTS_RED = ["auto", -5, -1, 0, 1, 5]
PS = {"p1": (5.0, 5, 5), "p1v": [(5.0, 5, 5)], "p2": [(5.0, 5, 5), (6, 6, 6)],
      "p3": [(5.0, 5, 5), (6, 6, 6), (7, 7, 7)], "p5": [(5.0, 5, 5)] * 3 + [(1, 1, 1), (2, 2, 2)]}
OS = {"oN": None, "o1": (0, 0, 1.0), "o1v": [(0, 0, 1.0)], "o2": [(0, 0, 1.0), (0, 1, 0)], "o3": RV,
      "o5": np.r_[RV, RV[:2]]}
KINDS = ["Sensor", "Cuboid", "Collection"]


def full_alphabet():
    ops = []
    for d in D:
        for st in STARTS:
            ops.append(("move", d, st))
    for r in ROT:
        for a in AN:
            for st in STARTS:
                ops.append(("rot", r, a, st))
    ops += [("pos", p) for p in PS]
    ops += [("ori", o) for o in OS]
    ops.append(("reset",))
    # aliasing inputs: the object's own getter output (a live view of its path) is passed back in
    for st in ("auto", 0, -1, 1):
        ops.append(("movelive", st))
        for r in ("s", "v2"):
            ops.append(("rotlive", r, st))
    ops += [("poslive",), ("orilive",)]
    return ops


def reduced_alphabet():
    return [op for op in full_alphabet()
            if op[0] in ("pos", "ori", "reset", "poslive", "orilive") or (op[-1] in STARTS_RED and op[1] in ("s", "v2")
                                                     and (op[0] == "move" or op[2] in ("N", "0", "s", "v2", "z2")))]


def Rot(rv):
    from scipy.spatial.transform import Rotation as R

    return R.from_rotvec(np.array(rv if rv is not None else (0.0, 0.0, 0.0), float))


def RotArg(rv):
    """what is passed to the library: None stays None"""
    return None if rv is None else Rot(rv)


def mk(kind, P, M):
    import magpylib as magpy
    from scipy.spatial.transform import Rotation as R

    P = np.array(P, float)
    ori = R.from_matrix(np.array(M, float))
    pos = P if len(P) > 1 else P[0]
    ori = ori if len(P) > 1 else ori[0]
    if kind == "Sensor":
        return magpy.Sensor(position=pos, orientation=ori)
    if kind == "Cuboid":
        return magpy.magnet.Cuboid(dimension=(1, 2, 3), polarization=(0, 0, 1), position=pos, orientation=ori)
    return magpy.Collection(position=pos, orientation=ori)


def init_state(L):
    P = np.array([(0.1 * i, 1 + i, -i) for i in range(L)], float)
    rv = np.array([(0.1 * i, 0.2, 0.3 - i * 0.05) for i in range(L)], float)
    return P, Rot(rv).as_matrix()


def apply_impl(o, op):
    if op[0] == "move":
        o.move(D[op[1]], start=op[2])
    elif op[0] == "rot":
        o.rotate(RotArg(ROT[op[1]]), anchor=AN[op[2]], start=op[3])
    elif op[0] == "pos":
        o.position = PS[op[1]]
    elif op[0] == "ori":
        o.orientation = None if OS[op[1]] is None else Rot(OS[op[1]])
    elif op[0] == "reset":
        o.reset_path()
    elif op[0] == "movelive":
        o.move(o.position, start=op[1])
    elif op[0] == "rotlive":
        o.rotate(Rot(ROT[op[1]]), anchor=o.position, start=op[2])
    elif op[0] == "poslive":
        o.position = o.position
    elif op[0] == "orilive":
        o.orientation = o.orientation
    else:
        raise AssertionError(op)


def apply_model(m, op):
    if op[0] == "move":
        m.move(D[op[1]], op[2])
    elif op[0] == "rot":
        m.rotate(Rot(ROT[op[1]]).as_matrix(), AN[op[2]], op[3])
    elif op[0] == "pos":
        m.set_position(PS[op[1]])
    elif op[0] == "ori":
        m.set_orientation(None if OS[op[1]] is None else Rot(OS[op[1]]).as_matrix())
    elif op[0] == "reset":
        m.reset()
    elif op[0] == "movelive":
        m.move(np.squeeze(np.array(m.arrays()[0], float)), op[1])
    elif op[0] == "rotlive":
        m.rotate(Rot(ROT[op[1]]).as_matrix(), np.squeeze(np.array(m.arrays()[0], float)), op[2])
    elif op[0] == "poslive":
        m.set_position(np.array(m.arrays()[0], float))
    elif op[0] == "orilive":
        m.set_orientation(np.array(m.arrays()[1], float))


def read(o):
    return np.array(o._position, float), o._orientation.as_matrix().reshape(-1, 3, 3)


def compare(o, m):
    """None if impl == model, else a short description"""
    P, M = read(o)
    mp, mm = m.arrays()
    if not (len(P) == len(M) >= 1):
        return f"len(position)={len(P)} len(orientation)={len(M)}"
    if o._position.ndim != 2 or o._position.shape[1] != 3:
        return f"_position shape {o._position.shape}"
    if len(P) != len(mp):
        return f"path length {len(P)} != model {len(mp)}"
    dp = float(np.max(np.abs(P - mp)))
    dm = float(np.max(np.abs(M - mm)))
    if not (dp <= TOL and dm <= TOL):
        return f"values differ dpos={dp:.3g} dori={dm:.3g}"
    # public getters: squeezed views of the same path
    pub = np.reshape(o.position, (-1, 3))
    if pub.shape != P.shape or np.max(np.abs(pub - P)) > 0:
        return "public position differs from path"
    return None


def canon(kind, P, M):
    return (kind, len(P), tuple(np.round(P, 8).ravel()), tuple(np.round(M, 8).ravel()))


def opkey(op):
    if op[0] == "move":
        return f"move|{'scalar' if op[1] == 's' else 'vector'}|start={startclass(op[2])}"
    if op[0] == "rot":
        return f"rotate|rot={'scalar' if op[1] == 's' else 'none' if op[1] == 'None' else 'vector'}|anchor={op[2]}|start={startclass(op[3])}"
    return op[0]


def startclass(st):
    if st == "auto":
        return "auto"
    return "neg" if st < 0 else ("zero" if st == 0 else "pos")


# ------------------------------------------------------------------ (A) exact BFS worker
def expand(task):
    kind, P, M, ops, want_states = task
    viols, news, n = [], {}, 0
    for op in ops:
        o = mk(kind, P, M)
        m = PathModel(P, M)
        n += 1
        try:
            apply_impl(o, op)
        except Exception as e:  # every op of the alphabet is valid
            viols.append((op, f"valid call raised {type(e).__name__}: {e}"[:200]))
            continue
        apply_model(m, op)
        msg = compare(o, m)
        if msg:
            viols.append((op, msg))
            continue
        if want_states:
            P2, M2 = read(o)
            c = canon(kind, P2, M2)
            if c not in news:
                news[c] = (P2, M2, op)
    return n, viols, news


def bfs(kinds, Ls, depth_ops, state_cap):
    """depth_ops: list of alphabets, one per depth level"""
    level = {}
    for kind in kinds:
        for L in Ls:
            P, M = init_state(L)
            level[canon(kind, P, M)] = (kind, P, M, ())
    seen = dict(level)
    trans = 0
    viols = []
    per_depth = []
    cap_hit = False
    for depth, ops in enumerate(depth_ops, 1):
        last = depth == len(depth_ops)
        items = list(level.values())
        tasks = [(k, P, M, ops, True) for (k, P, M, h) in items]
        res = common.pmap(expand, tasks, chunk=max(1, len(tasks) // (common.NCPU * 6)))
        nxt = {}
        for (k, P, M, h), (n, vs, news) in zip(items, res):
            trans += n
            for op, msg in vs:
                viols.append({"key": f"C09|{opkey(op)}|{msg.split(' ')[0]}",
                              "what": f"{k} L={len(P)} history={list(h)} op={op}: {msg}",
                              "case": {"part": "A", "kind": k, "P": P.tolist(), "M": M.tolist(), "op": list(op)},
                              "observed": msg})
            for c, (P2, M2, op) in news.items():
                if c not in seen:
                    if len(seen) >= state_cap:
                        cap_hit = True
                        continue
                    seen[c] = nxt[c] = (k, P2, M2, h + (op,))
        per_depth.append({"depth": depth, "expanded_states": len(items), "ops": len(ops), "new_states": len(nxt)})
        level = nxt
    return dict(states=len(seen), transitions=trans, per_depth=per_depth, cap_hit=cap_hit,
                sample=[list(v[3]) for v in list(seen.values())[-3:]]), viols, seen


# ------------------------------------------------------------------ (B) rotate_from_* forms
AXV = np.array([1.0, 2.0, -1.0])
ANG = {"s": 33.0, "v1": [33.0], "v2": [10.0, 20.0], "v3": [10.0, 20.0, 30.0]}


def forms_for(rkey, general):
    """list of (name, callable(obj, anchor, start)) all equivalent to rotate(rot)"""
    from scipy.spatial.transform import Rotation as R

    if general:
        rot = Rot(ROT[rkey])
        rv = rot.as_rotvec()
        forms = [
            ("rotvec_rad", lambda o, a, s: o.rotate_from_rotvec(rv, anchor=a, start=s, degrees=False)),
            ("rotvec_deg", lambda o, a, s: o.rotate_from_rotvec(np.rad2deg(rv), anchor=a, start=s, degrees=True)),
            ("euler_rad", lambda o, a, s: o.rotate_from_euler(rot.as_euler("xyz"), "xyz", anchor=a, start=s, degrees=False)),
            ("euler_deg", lambda o, a, s: o.rotate_from_euler(rot.as_euler("zxy", degrees=True), "zxy", anchor=a, start=s, degrees=True)),
            ("matrix", lambda o, a, s: o.rotate_from_matrix(rot.as_matrix(), anchor=a, start=s)),
            ("mrp", lambda o, a, s: o.rotate_from_mrp(rot.as_mrp(), anchor=a, start=s)),
            ("quat", lambda o, a, s: o.rotate_from_quat(rot.as_quat(), anchor=a, start=s)),
        ]
        return rot, forms
    ang = np.array(ANG[rkey], float)
    ax = AXV / np.linalg.norm(AXV)
    rot = R.from_rotvec(np.deg2rad(ang)[..., None] * ax if ang.ndim else np.deg2rad(ang) * ax)
    forms = [
        ("angax_deg", lambda o, a, s: o.rotate_from_angax(ANG[rkey], AXV, anchor=a, start=s, degrees=True)),
        ("angax_rad", lambda o, a, s: o.rotate_from_angax(np.deg2rad(ang).tolist(), AXV * 3, anchor=a, start=s, degrees=False)),
    ]
    return rot, forms


def named_axis_forms(rkey, axname):
    from scipy.spatial.transform import Rotation as R

    ang = np.array(ANG[rkey], float)
    e = {"x": (1.0, 0, 0), "y": (0, 1.0, 0), "z": (0, 0, 1.0)}[axname]
    rot = R.from_rotvec(np.deg2rad(ang)[..., None] * np.array(e) if ang.ndim else np.deg2rad(ang) * np.array(e))
    return rot, [(f"angax_{axname}", lambda o, a, s: o.rotate_from_angax(ANG[rkey], axname, anchor=a, start=s))]


def _elem(ax, a):
    c, s = np.cos(a), np.sin(a)
    return {"x": np.array([[1, 0, 0], [0, c, -s], [0, s, c]]),
            "y": np.array([[c, 0, s], [0, 1, 0], [-s, 0, c]]),
            "z": np.array([[c, -s, 0], [s, c, 0], [0, 0, 1]])}[ax]


def euler_sequences():
    """all documented sequences: 1-3 axes, no axis twice in a row, lower case (extrinsic) and upper case (intrinsic)"""
    seqs = []
    for n in (1, 2, 3):
        for t in itertools.product("xyz", repeat=n):
            if all(t[i] != t[i + 1] for i in range(n - 1)):
                seqs.append("".join(t))
    return seqs + [q.upper() for q in seqs]


EUL_ANG = np.array([[23.0, -41.0, 67.0], [-15.0, 52.0, 8.0]])  # generic, away from gimbal lock


def euler_matrix(seq, ang_rad):
    """first-principles composition with elementary matrices (no scipy Euler code)"""
    m = np.eye(3)
    for ax, a in zip(seq, ang_rad):
        e = _elem(ax.lower(), a)
        m = e @ m if seq.islower() else m @ e
    return m


def euler_forms():
    from scipy.spatial.transform import Rotation as R

    combos = []
    for seq in euler_sequences():
        n = len(seq)
        for shape in ("s", "v1", "v2"):
            deg = EUL_ANG[0, :n] if shape == "s" else EUL_ANG[:1, :n] if shape == "v1" else EUL_ANG[:, :n]
            if n == 1:
                deg = deg[..., 0]  # documented: scalar or (k,) for one axis
            rad = np.deg2rad(deg)
            if shape == "s":
                mats = euler_matrix(seq, np.atleast_1d(rad))
            else:
                mats = np.array([euler_matrix(seq, np.atleast_1d(r)) for r in rad])
            rot = R.from_matrix(mats)
            arg_d = deg.tolist() if np.ndim(deg) else float(deg)
            arg_r = rad.tolist() if np.ndim(rad) else float(rad)
            forms = [
                (f"euler_{seq}_deg", lambda o, a, s, q=seq, v=arg_d: o.rotate_from_euler(v, q, anchor=a, start=s, degrees=True)),
                (f"euler_{seq}_rad", lambda o, a, s, q=seq, v=arg_r: o.rotate_from_euler(v, q, anchor=a, start=s, degrees=False)),
            ]
            combos.append((f"eul{shape}", rot, forms))
    return combos


EUL_ANCHORS = ("N", "s", "v2")
EUL_STARTS = ("auto", 1, -1)


def forms_task(task):
    kind, P, M, starts = task
    n, viols = 0, []
    combos = []
    for rkey in [k for k in ROT if k != "None"]:
        combos.append((rkey,) + forms_for(rkey, True))
        combos.append((rkey,) + forms_for(rkey, False))
        for axn in "xyz":
            combos.append((rkey,) + named_axis_forms(rkey, axn))
    combos += euler_forms()
    for rkey, rot, forms in combos:
        eul = rkey.startswith("eul")
        for akey in AN:
            if eul and akey not in EUL_ANCHORS:
                continue
            for st in starts:
                if eul and st not in EUL_STARTS:
                    continue
                ref = mk(kind, P, M)
                ref.rotate(rot, anchor=AN[akey], start=st)
                Pr, Mr = read(ref)
                for name, f in forms:
                    o = mk(kind, P, M)
                    n += 1
                    try:
                        f(o, AN[akey], st)
                    except Exception as e:
                        viols.append((name, rkey, akey, st, f"raised {type(e).__name__}"))
                        continue
                    P2, M2 = read(o)
                    if P2.shape != Pr.shape or np.max(np.abs(P2 - Pr)) > TOL or np.max(np.abs(M2 - Mr)) > TOL:
                        viols.append((name, rkey, akey, st, "state differs from rotate()"))
    return n, viols


# ------------------------------------------------------------------ (F) value regimes: small levers, nano-scale numbers, far from the origin
REGIMES_F = [("unit", 1.0, 0.0), ("nano", 1e-9, 0.0), ("micro", 1e-6, 0.0), ("kilo", 1e3, 0.0), ("far-2000", 1.0, 2000.0), ("far-1e6", 1.0, 1e6)]
LEVERS_F = [1.0, 1e-2, 1e-3, 1e-5, 1e-8]


def regime_task(task):
    """rotate / rotate_from_angax about anchors at a lever of 1 ... 1e-8 object sizes, with all numbers scaled to nano / kilo
    units or shifted far from the origin; the position must move on the circle about the anchor whatever the lever"""
    name, scale, shift = task
    n, viols = 0, []
    for L in (1, 3):
        P0, M0 = init_state(L)
        P = (P0 + 0.3) * scale + shift
        for lever in LEVERS_F:
            for rkey in ("s", "v2"):
                for st in ("auto", 0):
                    for form in ("rotate", "angax"):
                        anc = P[0] + np.array((0.6, -0.3, 0.2)) * lever * scale
                        o = mk("Sensor", P, M0)
                        m = PathModel(P, M0)
                        n += 1
                        try:
                            if form == "rotate":
                                o.rotate(Rot(ROT[rkey]), anchor=anc, start=st)
                                m.rotate(Rot(ROT[rkey]).as_matrix(), anc, st)
                            else:
                                ang = ANG[rkey]
                                o.rotate_from_angax(ang, AXV, anchor=anc, start=st)
                                a = np.deg2rad(np.array(ang, float))
                                ax = AXV / np.linalg.norm(AXV)
                                from scipy.spatial.transform import Rotation as R

                                m.rotate(R.from_rotvec(a[..., None] * ax if a.ndim else a * ax).as_matrix(), anc, st)
                        except Exception as e:
                            viols.append((name, lever, rkey, st, form, f"raised {type(e).__name__}"))
                            continue
                        Pi, Mi = read(o)
                        mp, mm = m.arrays()
                        if len(Pi) != len(mp):
                            viols.append((name, lever, rkey, st, form, f"path length {len(Pi)} != model {len(mp)}"))
                            continue
                        # error measured against the lever (the quantity the rotation acts on) plus rounding of the absolute numbers
                        size = lever * scale
                        tol = 1e-9 * size + 4e-16 * (abs(shift) + 10 * scale) * 50
                        dp = float(np.max(np.abs(Pi - mp)))
                        if dp > tol or float(np.max(np.abs(Mi - mm))) > TOL:
                            viols.append((name, lever, rkey, st, form, f"position off by {dp:.3g} (lever {size:.3g}, tolerance {tol:.3g})"))
            # numpy integers as start (the documented type is int): they mean the integer they hold, on short and long paths
            if name == "unit" and lever == 1.0:
                for Lp in (L, 200):
                    Pp = np.array([(0.1 * i, -0.05 * i, 0.02 * i) for i in range(Lp)]) + 1.0
                    Mp = np.tile(np.eye(3), (Lp, 1, 1))
                    for stn in (np.int8(-3), np.int64(2), np.uint8(250), np.int16(-300), np.int32(0), np.uint16(5)):
                        for form in ("move_s", "move_v10", "rot_s", "rot_v2"):
                            o = mk("Sensor", Pp, Mp)
                            m = PathModel(Pp, Mp)
                            n += 1
                            before = (o._position.tobytes(), o._orientation.as_quat().tobytes())
                            try:
                                if form == "move_s":
                                    o.move((1.0, 2.0, 3.0), start=stn)
                                    m.move((1.0, 2.0, 3.0), int(stn))
                                elif form == "move_v10":
                                    o.move([(1.0, 0.0, 0.0)] * 10, start=stn)
                                    m.move([(1.0, 0.0, 0.0)] * 10, int(stn))
                                elif form == "rot_s":
                                    o.rotate(Rot(ROT["s"]), anchor=(1.0, 1, 1), start=stn)
                                    m.rotate(Rot(ROT["s"]).as_matrix(), (1.0, 1, 1), int(stn))
                                else:
                                    o.rotate(Rot(ROT["v2"]), anchor=0, start=stn)
                                    m.rotate(Rot(ROT["v2"]).as_matrix(), 0, int(stn))
                            except Exception as e:
                                changed = (o._position.tobytes(), o._orientation.as_quat().tobytes()) != before or len(o._position) != len(o._orientation)
                                viols.append((name, f"L={Lp}", type(stn).__name__, int(stn), form, f"valid numpy-integer start raised {type(e).__name__}" + (" and changed the object" if changed else "")))
                                continue
                            Pi, Mi = read(o)
                            mp, mm = m.arrays()
                            if len(Pi) != len(mp) or float(np.max(np.abs(Pi - mp))) > 1e-12 or float(np.max(np.abs(Mi - mm))) > TOL:
                                viols.append((name, f"L={Lp}", type(stn).__name__, int(stn), form, f"start={stn!r} does not act like start={int(stn)}"))
            # translations and assignments by a small fraction of the object size: nothing is too small to matter
            dsc = np.array((0.6, -0.4, 0.8)) * lever * scale
            dvec = np.array([(0.6, -0.4, 0.8), (-0.2, 0.5, 0.1)]) * lever * scale
            for form in ("move_s", "move_v", "set_shifted", "iadd", "set_same_plus_one_step"):
                for st in (("auto", 0) if form.startswith("move") else (None,)):
                    o = mk("Sensor", P, M0)
                    m = PathModel(P, M0)
                    n += 1
                    try:
                        if form == "move_s":
                            o.move(dsc, start=st)
                            m.move(dsc, st)
                        elif form == "move_v":
                            o.move(dvec, start=st)
                            m.move(dvec, st)
                        elif form == "set_shifted":
                            new = np.array(o.position) + dsc
                            o.position = new
                            m.set_position(new)
                        elif form == "iadd":
                            new = np.array(o.position) + dsc
                            o.position += dsc
                            m.set_position(new)
                        else:   # a scan: 20 assignments, each one small step further
                            cur = np.array(o.position)
                            for _ in range(20):
                                cur = cur + dsc
                                o.position = cur
                            m.set_position(cur)
                    except Exception as e:
                        viols.append((name, lever, "-", st, form, f"raised {type(e).__name__}"))
                        continue
                    Pi, Mi = read(o)
                    mp, mm = m.arrays()
                    if len(Pi) != len(mp):
                        viols.append((name, lever, "-", st, form, f"path length {len(Pi)} != model {len(mp)}"))
                        continue
                    dp = float(np.max(np.abs(Pi - mp)))
                    tol = 4e-16 * (abs(shift) + 10 * scale) * 50
                    if dp > tol:
                        viols.append((name, lever, "-", st, form, f"position off by {dp:.3g} (step {lever * scale:.3g}, tolerance {tol:.3g})"))
    return n, viols


# ------------------------------------------------------------------ (C) rejected calls
def bad_calls():
    from scipy.spatial.transform import Rotation as R

    r = R.from_rotvec((0.1, 0.2, 0.3))
    return [
        ("move-str", lambda o: o.move("x")),
        ("move-len2", lambda o: o.move((1, 2))),
        ("move-n4", lambda o: o.move([[1, 2, 3, 4]])),
        ("move-none", lambda o: o.move(None)),
        ("move-rank3", lambda o: o.move([[[1, 2, 3]]])),
        ("move-start-str", lambda o: o.move((1, 2, 3), start="x")),
        ("move-start-float", lambda o: o.move((1, 2, 3), start=1.5)),
        ("move-start-none", lambda o: o.move([(1, 2, 3), (1, 2, 3)], start=None)),
        ("rotate-nonrotation", lambda o: o.rotate((1, 2, 3))),
        ("rotate-anchor-len2", lambda o: o.rotate(r, anchor=(1, 2))),
        ("rotate-anchor-str", lambda o: o.rotate(r, anchor="a")),
        ("rotate-anchor-1", lambda o: o.rotate(r, anchor=1)),
        ("rotate-start-float", lambda o: o.rotate(r, start=1.5)),
        ("rotate-start-str", lambda o: o.rotate(R.from_rotvec([(0.1, 0, 0)] * 2), anchor=(1, 1, 1), start="end")),
        ("angax-zero-axis", lambda o: o.rotate_from_angax(10, (0, 0, 0))),
        ("angax-bad-axisname", lambda o: o.rotate_from_angax(10, "q")),
        ("angax-angle-str", lambda o: o.rotate_from_angax("a", "x")),
        ("angax-angle-rank2", lambda o: o.rotate_from_angax([[1, 2]], "x")),
        ("angax-degrees-int", lambda o: o.rotate_from_angax(10, "x", degrees=1)),
        ("angax-axis-len2", lambda o: o.rotate_from_angax(10, (1, 2))),
        ("angax-anchor-bad", lambda o: o.rotate_from_angax([10, 20], "z", anchor=(1, 2), start=-7)),
        ("angax-start-bad", lambda o: o.rotate_from_angax([10, 20], "z", anchor=0, start="a")),
        ("rotvec-len2", lambda o: o.rotate_from_rotvec((1, 2))),
        ("rotvec-start-bad", lambda o: o.rotate_from_rotvec([(1, 2, 3)] * 3, start=0.5)),
        ("quat-zero", lambda o: o.rotate_from_quat((0, 0, 0, 0))),
        ("quat-anchor-bad", lambda o: o.rotate_from_quat([(0, 0, 0, 1)] * 3, anchor=[(1, 2)], start=-9)),
        ("euler-badseq", lambda o: o.rotate_from_euler(10, "q")),
        ("matrix-bad", lambda o: o.rotate_from_matrix(np.zeros((2, 2)))),
        ("mrp-anchor-bad", lambda o: o.rotate_from_mrp([(0.1, 0, 0)] * 2, anchor="b")),
        ("position-len2", lambda o: setattr(o, "position", (1, 2))),
        ("position-str", lambda o: setattr(o, "position", "a")),
        ("position-n4", lambda o: setattr(o, "position", [[1, 2, 3, 4]] * 3)),
        ("position-none", lambda o: setattr(o, "position", None)),
        ("orientation-str", lambda o: setattr(o, "orientation", "a")),
        ("orientation-tuple", lambda o: setattr(o, "orientation", (1, 2, 3))),
    ]


def snapshot_tree(objs):
    return [(o._position.tobytes(), o._position.shape, o._orientation.as_quat().tobytes()) for o in objs]


def build_subject(kind, P, M):
    """returns (object operated on, all objects whose state must stay identical)"""
    import magpylib as magpy

    if kind != "CollectionWithChildren":
        o = mk(kind, P, M)
        return o, [o]
    c = mk("Collection", P, M)
    ch1 = mk("Sensor", P + 1.0, M)
    ch2 = mk("Cuboid", P[:1] - 2.0, M[:1])
    inner = magpy.Collection(ch2, position=(3, 2, 1))
    c.add(ch1, inner)
    return c, [c, ch1, inner, ch2]


def reject_task(task):
    kind, P, M = task
    n, viols, raised = 0, [], 0
    for name, f in bad_calls():
        o, objs = build_subject(kind, P, M)
        before = snapshot_tree(objs)
        n += 1
        try:
            f(o)
        except Exception:
            raised += 1
            after = snapshot_tree(objs)
            if after != before:
                which = [i for i, (a, b) in enumerate(zip(before, after)) if a != b]
                viols.append((name, f"rejected call changed objects {which}"))
            continue
        # accepted: the path invariant must still hold
        for x in objs:
            if not (len(x._position) == len(x._orientation) >= 1):
                viols.append((name, "accepted call broke equal path lengths"))
    return n, raised, viols


# ------------------------------------------------------------------ (D) integer box on the seam
def box_task(Ls):
    from magpylib._src.obj_classes.class_BaseGeo import pad_slice_path
    from magpylib._src.obj_classes.class_BaseTransform import path_padding_param

    n, bad = 0, []
    for L in Ls:
        for scalar, ns in ((True, [1]), (False, range(1, 25))):
            for ln in ns:
                for st in ["auto"] + list(range(-60, 61)):
                    n += 1
                    pad, s2 = path_padding_param(scalar, L, ln, st)
                    pb, pe = (pad if pad else (0, 0))
                    e = pad_params(L, scalar, ln, st)
                    if (pb, pe, s2) != (e[0], e[1], e[2]):
                        bad.append(("path_padding_param", scalar, L, ln, st, (pb, pe, s2), e[:3]))
        for N in range(1, 13):
            a = np.arange(N * 3, dtype=float).reshape(N, 3)
            b = np.arange(L * 2, dtype=float).reshape(L, 2) + 100
            n += 1
            r = pad_slice_path(a, b)
            exp = np.concatenate([b, np.repeat(b[-1:], N - L, 0)]) if N >= L else b[L - N:]
            if r.shape != exp.shape or not np.array_equal(r, exp):
                bad.append(("pad_slice_path", N, L))
    return n, bad


# ------------------------------------------------------------------ (E) length abstraction
def abstraction(ops, Lcap=12):
    """canon = path length only; BFS to fixpoint under the cap; every transition model-checked."""
    seen = {1}
    frontier = [1]
    trans = 0
    viols = []
    edges = set()
    while frontier:
        tasks = []
        for L in frontier:
            P, M = init_state(L)
            tasks.append(("Sensor", P, M, ops, True))
        res = common.pmap(expand, tasks, chunk=1)
        nxt = []
        for L, (n, vs, news) in zip(frontier, res):
            trans += n
            for op, msg in vs:
                viols.append({"key": f"C09|{opkey(op)}|{msg.split(' ')[0]}",
                              "what": f"abstraction L={L} op={op}: {msg}",
                              "case": {"part": "A", "kind": "Sensor", "P": init_state(L)[0].tolist(),
                                       "M": init_state(L)[1].tolist(), "op": list(op)}, "observed": msg})
            for c in news:
                L2 = c[1]
                edges.add((L, L2))
                if L2 <= Lcap and L2 not in seen:
                    seen.add(L2)
                    nxt.append(L2)
        frontier = sorted(nxt)
    return dict(abstract_states=sorted(seen), abstract_edges=len(edges), transitions=trans, Lcap=Lcap), viols


# ------------------------------------------------------------------ run
def run(tier, seed):
    full, red = full_alphabet(), reduced_alphabet()
    viols = []
    if tier == "quick":
        stA, vA, seen = bfs(KINDS, [1, 2, 3, 4], [full], 10 ** 6)
        stA2, vA2, _ = bfs(["Sensor"], [1, 2, 3], [full, full], 10 ** 6)
        parts = {"exact_depth1_full_all_kinds": stA, "exact_depth2_full_sensor": stA2}
        viols += vA + vA2
    else:
        stA, vA, seen = bfs(KINDS, [1, 2, 3, 4], [full, full], 10 ** 6)
        stA2, vA2, _ = bfs(["Sensor"], [1, 3], [red, red, red], 400000)
        parts = {"exact_depth2_full": stA, "exact_depth3_reduced": stA2}
        viols += vA + vA2
    states = sum(p["states"] for p in parts.values())
    trans = sum(p["transitions"] for p in parts.values())

    # (B) forms: on initial states (quick) / on initial + all depth-1 Sensor states with L<=3 (thorough)
    form_states = [("Sensor",) + init_state(L) for L in (1, 2, 3, 4)]
    form_states += [("Collection",) + init_state(2)]
    starts = STARTS_RED if tier == "quick" else STARTS
    resB = common.pmap(forms_task, [(k, P, M, starts) for (k, P, M) in form_states], chunk=1)
    nB = sum(r[0] for r in resB)
    for (k, P, M), (n, vs) in zip(form_states, resB):
        for name, rkey, akey, st, msg in vs:
            viols.append({"key": f"C09|form={name}|rot={rkey}|anchor={akey}|start={startclass(st)}",
                          "what": f"rotate_from form {name} rot={rkey} anchor={akey} start={st} on {k} L={len(P)}: {msg}",
                          "case": {"part": "B", "kind": k, "P": P.tolist(), "M": M.tolist(), "form": name,
                                   "rkey": rkey, "akey": akey, "start": st}, "observed": msg})

    # (C) rejected calls on every depth<=1 state of quick BFS (all kinds) + a collection with children
    rej_states = [(v[0], v[1], v[2]) for v in seen.values() if len(v[3]) <= (0 if tier == "quick" else 1)]
    rej_states += [("CollectionWithChildren",) + init_state(L) for L in (1, 2, 3)]
    resC = common.pmap(reject_task, rej_states)
    nC = sum(r[0] for r in resC)
    nraised = sum(r[1] for r in resC)
    for (k, P, M), (n, raised, vs) in zip(rej_states, resC):
        for name, msg in vs:
            viols.append({"key": f"C09|rejected|{name}|{k}", "what": f"{name} on {k} L={len(P)}: {msg}",
                          "case": {"part": "C", "kind": k, "P": P.tolist(), "M": M.tolist(), "name": name},
                          "observed": msg})

    # (D) integer box
    resD = common.pmap(box_task, [[L] for L in range(1, 25)], chunk=1)
    nD = sum(r[0] for r in resD)
    for n, bad in resD:
        for b in bad:
            viols.append({"key": f"C09|seam|{b[0]}", "what": f"padding arithmetic differs from model: {b}",
                          "case": {"part": "D", "L": b[2] if b[0] == "path_padding_param" else b[2]}, "observed": list(map(str, b))})

    # (E) abstraction
    stE, vE = abstraction(full)
    viols += vE

    # (F) value regimes
    resF = common.pmap(regime_task, REGIMES_F, chunk=1)
    nF = sum(r[0] for r in resF)
    for n_, vs in resF:
        for name, lever, rkey, st, form, msg in vs:
            lv = f"{lever:g}" if not isinstance(lever, str) else lever
            viols.append({"key": f"C09|regime={name}|lever={lv}|{form}|{msg.split(' ')[0]}" if not isinstance(lever, str) else f"C09|numpy-start|{rkey}|{form}|{'raised' if 'raised' in msg else 'differs'}",
                          "what": f"regime {name} lever {lv} {form} rot={rkey} start={st}: {msg}",
                          "case": {"part": "F", "regime": name}, "observed": msg})

    harness = []
    if nraised < 0.8 * nC:
        harness.append(f"vacuous: only {nraised} of {nC} malformed calls were rejected")
    cov = {
        "states": states + len(stE["abstract_states"]),
        "transitions": trans + nB + nC + nF + stE["transitions"],
        "traces_validated_against_impl": trans + nB + nC + nF + stE["transitions"],
        "value_regime_transitions": nF, "value_regimes": [r[0] for r in REGIMES_F], "levers": LEVERS_F,
        "samples": [{"kind": "Sensor", "L": 3, "history": h} for p in parts.values() for h in p["sample"]][:4],
        "exhaustive": not any(p["cap_hit"] for p in parts.values()),
        "parts": parts,
        "rotate_form_executions": nB,
        "rejected_call_cases": nC,
        "rejected_calls_that_raised": nraised,
        "integer_box_points": nD,
        "length_abstraction": stE,
        "alphabet_sizes": {"full": len(full), "reduced": len(red), "bad_calls": len(bad_calls())},
        "rule": "state = (object kind, rounded position path, rounded rotation matrices); each op of the "
                "alphabet applied to each reached state via the public API and compared with the reference "
                "path model at 1e-11; rotate_from_* forms compared with rotate(); malformed calls must leave "
                "byte-identical paths; padding seam enumerated on L,n in 1..24, start in auto,-60..60",
    }
    return {"coverage": cov, "violations": viols, "harness_errors": harness,
            "assumptions": ["values of the alphabet are generic fixed numbers; the padding arithmetic is "
                            "covered by the integer box, not by value variety"]}


def replay(case):
    part = case["part"]
    if part == "D":
        n, bad = box_task([case["L"]])
        return {"violated": bool(bad), "observed": [list(map(str, b)) for b in bad[:5]]}
    P, M = (np.array(case["P"]), np.array(case["M"])) if "P" in case else (None, None)
    if part == "A":
        op = tuple(case["op"])
        n, vs, _ = expand((case["kind"], P, M, [op], False))
        return {"violated": bool(vs), "observed": [v[1] for v in vs]}
    if part == "B":
        n, vs = forms_task((case["kind"], P, M, [case["start"]]))
        vs = [v for v in vs if v[0] == case["form"] and v[1] == case["rkey"] and v[2] == case["akey"]]
        return {"violated": bool(vs), "observed": [list(map(str, v)) for v in vs]}
    if part == "F":
        n, vs = regime_task([r for r in REGIMES_F if r[0] == case["regime"]][0])
        return {"violated": bool(vs), "observed": [list(map(str, v)) for v in vs[:5]]}
    if part == "C":
        n, raised, vs = reject_task((case["kind"], P, M))
        vs = [v for v in vs if v[0] == case["name"]]
        return {"violated": bool(vs), "observed": [list(v) for v in vs]}
    raise AssertionError(part)
