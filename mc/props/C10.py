"""C10 - operations on a Collection keep every child's pose relative to it.

Explicit-state BFS over real collection trees. Transition = one move/rotate/setter call on any
object of the tree. Oracle (DESIGN A.2): with `map` the index map of the reference path model for
the operated object, every descendant's pose relative to the operated collection at new index m
equals the relative pose before at map(m); everything outside the operated subtree is
byte-identical; the operated object's own path follows the path model; the field of the collection
seen by its own sensor obeys the same index relation.
"""
import itertools

import numpy as np

from mc import common
from mc.oracles.pathmodel import PathModel

LEVEL = "model_checking"
TOL = 1e-9

D = {"s": (1.0, 2, 3), "v2": [(1.0, 2, 3), (0, -1, 0.5)]}
RV = np.array([(0.2, -0.4, 0.1), (0, 0.3, 0.3), (1.0, 0, 0.2)])
ROT = {"s": RV[0], "v2": RV[:2], "v3": RV}
AN = {"N": None, "0": 0, "s": (1.0, 1, 1), "v2": [(1.0, 1, 1), (0, 2, 0)]}
PS = {"p1": (5.0, 5, 5), "p2": [(5.0, 5, 5), (6, 6, 6)], "p4": [(5.0, 5, 5), (6, 6, 6), (7, 7, 7), (8, 7, 6)]}
OS = {"oN": None, "o1": (0, 0, 1.0), "o2": [(0, 0, 1.0), (0, 1, 0)]}

# tree shapes: name -> (children names); kinds by first letter: C,D,E collections; s sensor; a,b,c magnets
TREES = {
    "flat": {"C": ["s", "a"]},
    "nested2": {"C": ["a", "D"], "D": ["b", "s"]},
    "nested3": {"C": ["a", "D"], "D": ["b", "E"], "E": ["s", "c"]},
}


def Rot(rv):
    from scipy.spatial.transform import Rotation as R

    return R.from_rotvec(np.array(rv, float))


def names_of(tree):
    t = TREES[tree]
    out = []

    def rec(n):
        out.append(n)
        for c in t.get(n, []):
            rec(c)

    rec("C")
    return out


def subtree(tree, n):
    t = TREES[tree]
    out = []

    def rec(x):
        for c in t.get(x, []):
            out.append(c)
            rec(c)

    rec(n)
    return out


def init_state(tree, N, ident=False):
    """generic, path-varying poses; collections off-origin and different from each other.
    ident=True: translation-only paths (every orientation is the unit rotation)"""
    st = {}
    for k, n in enumerate(names_of(tree)):
        P = np.array([(0.7 * k + 0.3 * i + 1.0, -0.5 * k + 0.2 * i * (k + 1), 0.4 * k - 0.25 * i + 0.5) for i in range(N)])
        rv = np.array([(0.15 * k + 0.1 * i, 0.2 - 0.07 * i * (k + 1), 0.3 * (k % 3) - 0.05 * i) for i in range(N)])
        st[n] = (P, Rot(rv * (0.0 if ident else 1.0)).as_matrix())
    return st


def build(tree, st):
    import magpylib as magpy
    from scipy.spatial.transform import Rotation as R

    objs = {}
    for n in names_of(tree):
        P, M = st[n]
        pos = P if len(P) > 1 else P[0]
        ori = R.from_matrix(M) if len(P) > 1 else R.from_matrix(M)[0]
        if n in "CDE":
            objs[n] = magpy.Collection(position=pos, orientation=ori)
        elif n == "s":
            objs[n] = magpy.Sensor(pixel=[(0.013, 0.007, -0.011), (0.071, 0.113, 0.127)], position=pos, orientation=ori)
        else:
            objs[n] = magpy.magnet.Cuboid(dimension=(0.4, 0.5, 0.6), polarization=(0.1, 0.2, 0.3), position=pos, orientation=ori)
    for p, chs in TREES[tree].items():
        objs[p].add(*[objs[c] for c in chs])
    return objs


def read(o):
    return np.array(o._position, float), o._orientation.as_matrix().reshape(-1, 3, 3)


def alphabet(N, reduced=False):
    starts = ["auto", 0, 1, -1, -(N + 1), N + 1]
    if reduced:
        starts = ["auto", -1]
    ops = []
    for d in D:
        for st in starts:
            ops.append(("move", d, st))
    for r in (ROT if not reduced else ["s", "v2"]):
        for a in (AN if not reduced else ["N", "s"]):
            for st in starts:
                ops.append(("rot", r, a, st))
    for ang in ("s", "v2"):
        for a in ("N", "s"):
            for st in (["auto", 0, -1] if not reduced else ["auto"]):
                ops.append(("angax", ang, a, st))
    # every other rotation input form (rotvec, euler, matrix, quaternion, mrp) of the same rotations
    for form in ROTFORMS:
        for r in (("s",) if reduced else ("s", "v2")):
            for a in ("N", "s"):
                for st in (["auto"] if reduced else ["auto", 0]):
                    ops.append(("rotform", form, r, a, st))
    ops += [("pos", p) for p in PS]
    ops += [("ori", o) for o in OS]
    ops.append(("reset",))
    # aliasing inputs: the LIVE position array of a tree member (a view of its internal path) is passed in
    for who in LIVE:
        for st in ("auto", 0):
            for r in (("s",) if reduced else ("s", "v2")):
                ops.append(("rotlive", r, who, st))
            ops.append(("movelive", who, st))
        ops.append(("poslive", who))
        ops.append(("movelivelist", who, 0))     # the live view wrapped in a list
        ops.append(("rotliveori", who, 0))       # the orientation OBJECT of a member as rotation input
        ops.append(("rotliveori", who, "auto"))
    # in-place arithmetic through the getter: o.position += d must act like o.position = o.position + d
    ops += [("posiadd", "s"), ("orilast",), ("oriself",)]
    # a fine angular sweep (micro-radian steps): still a rotating path
    ops += [("rotmicro", "auto"), ("rotmicro", 0)]
    return ops


LIVE = ("self", "first", "last")
ROTFORMS = ("rotvec", "euler", "matrix", "quat", "mrp")


def live_member(tree, target, who):
    sub = subtree(tree, target)
    if who == "self" or not sub:
        return target
    return sub[0] if who == "first" else sub[-1]


ANGAX = {"s": 40.0, "v2": [15.0, 35.0]}
MICRO = [2e-6, 5e-6, 9e-6]   # rad


def apply_impl(o, op, live=None):
    if op[0] == "rotmicro":
        o.rotate_from_angax(MICRO, (0.3, 1.0, -0.2), anchor=(0.4, 0.1, -0.3), start=op[1], degrees=False)
    elif op[0] == "posiadd":
        o.position += np.array(D[op[1]])
    elif op[0] == "orilast":
        o.orientation = o.orientation[-1] if len(o._position) > 1 else o.orientation
    elif op[0] == "oriself":
        o.orientation = o.orientation
    elif op[0] == "movelivelist":
        o.move([live.position] if live.position.ndim == 1 else list(live.position), start=op[2])
    elif op[0] == "rotliveori":
        o.rotate(live.orientation, anchor=(0.5, -0.2, 0.3), start=op[2])
    elif op[0] == "rotlive":
        o.rotate(Rot(ROT[op[1]]), anchor=live.position, start=op[3])
    elif op[0] == "movelive":
        o.move(live.position, start=op[2])
    elif op[0] == "poslive":
        o.position = live.position
    elif op[0] == "move":
        o.move(D[op[1]], start=op[2])
    elif op[0] == "rot":
        o.rotate(Rot(ROT[op[1]]), anchor=AN[op[2]], start=op[3])
    elif op[0] == "rotform":
        r, kw = Rot(ROT[op[2]]), dict(anchor=AN[op[3]], start=op[4])
        if op[1] == "rotvec":
            o.rotate_from_rotvec(r.as_rotvec(), degrees=False, **kw)
        elif op[1] == "euler":
            o.rotate_from_euler(r.as_euler("zyx"), "zyx", degrees=False, **kw)
        elif op[1] == "matrix":
            o.rotate_from_matrix(r.as_matrix(), **kw)
        elif op[1] == "quat":
            o.rotate_from_quat(r.as_quat(), **kw)
        else:
            o.rotate_from_mrp(r.as_mrp(), **kw)
    elif op[0] == "angax":
        o.rotate_from_angax(ANGAX[op[1]], "z", anchor=AN[op[2]], start=op[3])
    elif op[0] == "pos":
        o.position = PS[op[1]]
    elif op[0] == "ori":
        o.orientation = None if OS[op[1]] is None else Rot(OS[op[1]])
    elif op[0] == "reset":
        o.reset_path()


def apply_model(m, op, live_value=None, live_ori=None):
    from scipy.spatial.transform import Rotation as R

    if op[0] == "rotmicro":
        ax = np.array((0.3, 1.0, -0.2)) / np.linalg.norm((0.3, 1.0, -0.2))
        m.rotate(R.from_rotvec(np.array(MICRO)[:, None] * ax).as_matrix(), (0.4, 0.1, -0.3), op[1])
    elif op[0] == "posiadd":
        m.set_position(np.array(m.arrays()[0], float) + np.array(D[op[1]]))
    elif op[0] == "orilast":
        m.set_orientation(np.array(m.arrays()[1], float)[-1:])
    elif op[0] == "oriself":
        m.set_orientation(np.array(m.arrays()[1], float))
    elif op[0] == "movelivelist":
        m.move(np.atleast_2d(live_value), op[2])
    elif op[0] == "rotliveori":
        m.rotate(live_ori, (0.5, -0.2, 0.3), op[2])
    elif op[0] == "rotlive":
        m.rotate(Rot(ROT[op[1]]).as_matrix(), live_value, op[3])
    elif op[0] == "movelive":
        m.move(live_value, op[2])
    elif op[0] == "poslive":
        m.set_position(live_value)
    elif op[0] == "move":
        m.move(D[op[1]], op[2])
    elif op[0] == "rot":
        m.rotate(Rot(ROT[op[1]]).as_matrix(), AN[op[2]], op[3])
    elif op[0] == "rotform":
        m.rotate(Rot(ROT[op[2]]).as_matrix(), AN[op[3]], op[4])
    elif op[0] == "angax":
        ang = np.deg2rad(np.array(ANGAX[op[1]], float))
        rv = ang[..., None] * np.array((0, 0, 1.0)) if ang.ndim else ang * np.array((0, 0, 1.0))
        m.rotate(R.from_rotvec(rv).as_matrix(), AN[op[2]], op[3])
    elif op[0] == "pos":
        m.set_position(PS[op[1]])
    elif op[0] == "ori":
        m.set_orientation(None if OS[op[1]] is None else Rot(OS[op[1]]).as_matrix())
    elif op[0] == "reset":
        m.reset()


def rel(Pc, Mc, Pd, Md):
    """pose of d in c's frame, per index"""
    rp = np.einsum("nji,nj->ni", Mc, Pd - Pc)
    rm = np.einsum("nji,njk->nik", Mc, Md)
    return rp, rm


def opkey(op):
    st = op[-1] if op[0] in ("move", "rot", "rotform", "angax", "rotlive", "movelive", "movelivelist", "rotliveori", "rotmicro") else ""
    sc = "" if st == "" else ("auto" if st == "auto" else "neg" if st < 0 else "zero" if st == 0 else "pos")
    if op[0] == "rot":
        return f"rotate|rot={'scalar' if op[1]=='s' else 'vector'}|anchor={op[2]}|start={sc}"
    if op[0] == "rotform":
        return f"rotate_from_{op[1]}|rot={'scalar' if op[2]=='s' else 'vector'}|anchor={op[3]}|start={sc}"
    if op[0] == "angax":
        return f"angax|ang={'scalar' if op[1]=='s' else 'vector'}|anchor={op[2]}|start={sc}"
    if op[0] == "move":
        return f"move|{'scalar' if op[1]=='s' else 'vector'}|start={sc}"
    if op[0] in ("rotlive", "movelive", "poslive", "movelivelist", "rotliveori"):
        return f"{op[0]}|live={op[2] if op[0] == 'rotlive' else op[1]}|start={sc}"
    return op[0]


def check_transition(tree, st, target, op, want_state=True):
    """returns (list of problems, new state or None, enabled)"""
    names = names_of(tree)
    sub = subtree(tree, target)
    L = len(st[target][0])
    if any(len(st[d][0]) != L for d in sub):
        return None, None, False  # precondition of the property not met: op disabled
    objs = build(tree, st)
    before = {n: read(objs[n]) for n in names}
    raw_before = {n: (objs[n]._position.tobytes(), objs[n]._orientation.as_quat().tobytes()) for n in names}
    Bbefore = None
    has_field = target in "CDE" and "s" in sub and any(x in "abc" for x in sub)
    if has_field:
        Bbefore = objs[target].getB(squeeze=False)
    m = PathModel(*st[target])
    live = live_value = None
    live_ori = None
    if op[0] in ("rotlive", "movelive", "poslive", "movelivelist", "rotliveori"):
        who = live_member(tree, target, op[2] if op[0] == "rotlive" else op[1])
        live = objs[who]
        live_value = np.array(np.squeeze(before[who][0]), float).copy()
        live_ori = np.array(before[who][1], float).copy()
        live_ori = live_ori[0] if len(live_ori) == 1 else live_ori
    try:
        apply_impl(objs[target], op, live)
    except Exception as e:
        return [f"valid call raised {type(e).__name__}: {e}"[:160]], None, True
    apply_model(m, op, live_value, live_ori)
    problems = []
    after = {n: read(objs[n]) for n in names}
    # own path follows the path model
    mp, mm = m.arrays()
    Pt, Mt = after[target]
    if len(Pt) != len(mp) or len(Mt) != len(mp):
        problems.append(f"own-path length {len(Pt)} != model {len(mp)}")
    elif np.max(np.abs(Pt - mp)) > TOL or np.max(np.abs(Mt - mm)) > TOL:
        problems.append("own-path values differ from path model")
    # outside the subtree: byte-identical
    for n in names:
        if n != target and n not in sub:
            if (objs[n]._position.tobytes(), objs[n]._orientation.as_quat().tobytes()) != raw_before[n]:
                problems.append(f"object {n} outside the operated subtree changed")
    # descendants keep relative pose (index-mapped)
    if not problems:
        imap = m.last_map
        Pc0, Mc0 = before[target]
        for d in sub:
            Pd, Md = after[d]
            if len(Pd) != len(Pt) or len(Md) != len(Pt):
                problems.append(f"descendant {d} path length {len(Pd)} != collection {len(Pt)}")
                continue
            rp1, rm1 = rel(Pt, Mt, Pd, Md)
            rp0, rm0 = rel(Pc0, Mc0, *before[d])
            dp = float(np.max(np.abs(rp1 - rp0[imap])))
            dm = float(np.max(np.abs(rm1 - rm0[imap])))
            if dp > TOL or dm > TOL:
                depth = "child" if d in TREES[tree].get(target, []) else "deeper"
                problems.append(f"relative pose of {depth} descendant {d} changed dpos={dp:.3g} dori={dm:.3g}")
        if has_field and not problems:
            Bafter = objs[target].getB(squeeze=False)
            exp = Bbefore[:, imap]
            if Bafter.shape != exp.shape:
                problems.append(f"own-sensor field shape {Bafter.shape} != {exp.shape}")
            elif np.max(np.abs(Bafter - exp)) > 1e-9 * max(1e-30, np.max(np.abs(exp))):
                problems.append("field seen by own sensor changed")
    new = {n: after[n] for n in names} if (want_state and not problems) else None
    return problems, new, True


def canon(tree, st):
    return (tree,) + tuple((n, len(st[n][0]), tuple(np.round(st[n][0], 7).ravel()), tuple(np.round(st[n][1], 7).ravel()))
                           for n in names_of(tree))


def expand(task):
    tree, st, hist, ops_by_N_reduced, want, keep_states = task
    names = names_of(tree)
    n, disabled = 0, 0
    viols, news = [], {}
    for target in names:
        L = len(st[target][0])
        for op in alphabet(L, reduced=ops_by_N_reduced):
            problems, new, enabled = check_transition(tree, st, target, op, want)
            if not enabled:
                disabled += 1
                continue
            n += 1
            if problems:
                viols.append((target, op, problems))
            elif want and new is not None:
                c = canon(tree, new)
                if c not in news:
                    news[c] = (new, (target,) + tuple(op))
    if not keep_states:  # last level: only the canonical hashes are needed for counting
        news = {hash(c): None for c in news}
    return n, disabled, viols, news


def bfs(trees, Ns, levels, state_cap, idents=(False, True)):
    """levels: list of booleans (reduced alphabet at that depth?)"""
    level = {}
    for t in trees:
        for N in Ns:
            for ident in idents:
                st = init_state(t, N, ident)
                level[canon(t, st)] = (t, st, ())
    seen = set(level)
    trans = disabled = 0
    viols = []
    per_depth = []
    cap_hit = False
    samples = []
    for depth, red in enumerate(levels, 1):
        items = list(level.values())
        last = depth == len(levels)
        tasks = [(t, st, h, red, True, not last) for (t, st, h) in items]
        res = common.pmap(expand, tasks, chunk=max(1, len(tasks) // (common.NCPU * 8)))
        nxt = {}
        for (t, st, h), (n, dis, vs, news) in zip(items, res):
            trans += n
            disabled += dis
            if len(samples) < 4 and (depth == len(levels)) and news is not None:
                samples.append({"tree": t, "history_reaching_the_state": [list(x) for x in h], "path_lengths": {k: len(v[0]) for k, v in st.items()},
                                "ops_applied_to_this_state": n, "ops_disabled_by_precondition": dis})
            for target, op, problems in vs:
                kind = "collection" if target in "CDE" else "leaf"
                viols.append({"key": f"C10|{kind}|{opkey(op)}|{problems[0].split(' ')[0]}-{problems[0].split(' ')[1]}",
                              "what": f"tree={t} history={list(h)} target={target} op={op}: {problems}",
                              "case": {"tree": t, "state": {k: [v[0].tolist(), v[1].tolist()] for k, v in st.items()},
                                       "target": target, "op": list(op)},
                              "observed": problems})
            if last:
                for c in news:
                    seen.add(c)
                continue
            for c, (new, step) in news.items():
                if c not in seen:
                    if len(seen) >= state_cap:
                        cap_hit = True
                        continue
                    seen.add(c)
                    nxt[c] = (t, new, h + (step,))
                    if len(samples) < 4 and depth >= 2:
                        samples.append({"tree": t, "history": [list(x) for x in h + (step,)]})
        per_depth.append({"depth": depth, "expanded": len(items), "reduced_alphabet": red, "new_states": len(nxt)})
        level = nxt
    return dict(states=len(seen), transitions=trans, disabled_by_precondition=disabled, per_depth=per_depth,
                cap_hit=cap_hit), viols, samples


# ------------------------------------------------------------------ extras: shared input objects, small offsets
SHARED_OPS = ["move_x", "move_y", "rot_x", "rot_y", "moveC", "rotC"]
SMALL_OFFSETS = [1e-3, 1e-6, 1e-9]
SMALL_CENTRES = [(0.0, 0.0, 0.0), (0.3, -0.2, 0.1), (25.0, 10.0, -40.0)]
SMALL_OPS = ["rot_s", "rot_v", "angax", "ori_set", "rotvec", "move_then_rot"]


def extra_tasks(tier):
    tasks = []
    for tree in TREES:
        names = names_of(tree)
        for x, y in itertools.permutations(names, 2):
            for what in ("position", "orientation"):
                for op in SHARED_OPS:
                    tasks.append({"extra": "shared", "tree": tree, "x": x, "y": y, "what": what, "op": op})
    for tree in TREES:
        for off in SMALL_OFFSETS:
            for ci in range(len(SMALL_CENTRES)):
                for op in SMALL_OPS:
                    for target in [n for n in names_of(tree) if n in "CDE"]:
                        tasks.append({"extra": "small", "tree": tree, "offset": off, "centre": ci, "op": op, "target": target})
    return tasks


def run_extra(c):
    from scipy.spatial.transform import Rotation as R

    tree = c["tree"]
    names = names_of(tree)
    if c["extra"] == "shared":
        # ONE input object (a float path array / a Rotation of length 2) is assigned to two members of a tree; afterwards one of
        # them (or the root) is operated on. Everything must be as in a twin tree whose members were given separate copies.
        def scenario(shared):
            objs = build(tree, init_state(tree, 2))
            arr = np.array([(0.4, 0.1, -0.2), (0.5, 0.3, -0.1)])
            rot = R.from_rotvec([(0.1, 0.2, -0.3), (0.3, -0.1, 0.2)])
            val = arr if c["what"] == "position" else rot
            for n in (c["x"], c["y"]):
                v = val if shared else (val.copy() if c["what"] == "position" else R.from_quat(val.as_quat()))
                setattr(objs[n], c["what"], v)
            who = {"move_x": c["x"], "move_y": c["y"], "rot_x": c["x"], "rot_y": c["y"], "moveC": "C", "rotC": "C"}[c["op"]]
            if c["op"].startswith("move"):
                objs[who].move((0.25, -0.5, 0.125))
            else:
                objs[who].rotate_from_angax(35, (1, 2, 3), anchor=None)
            return {n: read(objs[n]) for n in names}, (arr, rot)
        try:
            got, (arr, rot) = scenario(True)
            want, _ = scenario(False)
        except Exception as e:
            return [f"raised {type(e).__name__}: {e}"[:160]]
        problems = []
        for n in names:
            if got[n][0].shape != want[n][0].shape or np.max(np.abs(got[n][0] - want[n][0])) > TOL or np.max(np.abs(got[n][1] - want[n][1])) > TOL:
                problems.append(f"member {n} differs from the twin tree built with separate copies of the input (shared {c['what']} given to {c['x']} and {c['y']}, then {c['op']})")
                break
        if not np.array_equal(arr, np.array([(0.4, 0.1, -0.2), (0.5, 0.3, -0.1)])):
            problems.append("the caller's array was changed")
        return problems
    # small offsets: children within 1e-3 ... 1e-9 of the collection position, collection at / away from the origin
    off, centre = c["offset"], np.array(SMALL_CENTRES[c["centre"]])
    st = {}
    for k, n in enumerate(names):
        d = np.array((0.6 + 0.1 * k, -0.3 * (k % 2) + 0.2, 0.5 - 0.15 * k)) * off
        st[n] = ((centre + (d if n != "C" else 0.0))[None, :], Rot((0.1 * k, -0.2, 0.05 * k)).as_matrix()[None, :, :])
    objs = build(tree, st)
    t = objs[c["target"]]
    sub = subtree(tree, c["target"])
    before = {n: read(objs[n]) for n in names}
    rv = np.array((0.4, -0.7, 0.5))
    try:
        if c["op"] == "rot_s":
            t.rotate(Rot(rv))
        elif c["op"] == "rot_v":
            t.rotate(Rot([rv, 2 * rv]), start=0)
        elif c["op"] == "angax":
            t.rotate_from_angax(77, (1, -2, 0.5))
        elif c["op"] == "rotvec":
            t.rotate_from_rotvec(rv, degrees=False)
        elif c["op"] == "ori_set":
            t.orientation = Rot(rv)
        else:
            t.move(np.array((0.5, 0.25, -0.125)) * off)
            t.rotate(Rot(rv))
    except Exception as e:
        return [f"raised {type(e).__name__}: {e}"[:160]]
    problems = []
    Pt, Mt = read(t)
    idx = np.zeros(len(Pt), int)
    for d in sub:
        Pd, Md = read(objs[d])
        if len(Pd) != len(Pt):
            problems.append(f"descendant {d} path length {len(Pd)} != {len(Pt)}")
            continue
        rp1, rm1 = rel(Pt, Mt, Pd, Md)
        rp0, rm0 = rel(*before[c["target"]], *before[d])
        dp = float(np.max(np.abs(rp1 - rp0[idx])))
        dm = float(np.max(np.abs(rm1 - rm0[idx])))
        tol = 1e-9 * off + 4e-16 * 50 * (float(np.max(np.abs(centre))) + 1e-300)
        if dp > tol or dm > 1e-11:
            problems.append(f"relative pose of {d} changed by {dp:.3g} (offset {off:g}, tolerance {tol:.3g}) dori={dm:.3g}")
            break
    return problems


def work_extra(c):
    try:
        return run_extra(c)
    except Exception as e:
        import traceback

        return ["HARNESS " + f"{type(e).__name__}: {e} {traceback.format_exc()[-300:]}"]


def run(tier, seed):
    if tier == "quick":
        parts = [("depth1-full", bfs(list(TREES), [1, 2, 3], [False], 10 ** 6)),
                 ("depth2-reduced", bfs(list(TREES), [1, 2], [True, True], 10 ** 6, idents=(False,)))]
    else:
        parts = [("depth2-full", bfs(list(TREES), [1, 2], [False, False], 10 ** 7)),
                 ("depth2-full-N3-flat", bfs(["flat"], [3], [False, False], 10 ** 7)),
                 ("depth3-reduced-nested", bfs(["nested2"], [1, 2], [True, True, True], 10 ** 7))]
    viols = [v for _, (_, vs, _) in parts for v in vs]
    samples = [s for _, (_, _, sm) in parts for s in sm]
    etasks = extra_tasks(tier)
    harness = []
    for c, r in zip(etasks, common.pmap(work_extra, etasks)):
        for p_ in r:
            if p_.startswith("HARNESS"):
                harness.append(f"{c}: {p_}")
                continue
            key = (f"C10|shared-input|{c['what']}|{c['op']}|differs" if c["extra"] == "shared"
                   else f"C10|small-offset|{c['offset']:g}|{c['op']}|{p_.split(' ')[0]}-{p_.split(' ')[1]}")
            viols.append({"key": key, "what": f"{c}: {p_}", "case": {"extra_case": c}, "observed": [p_]})
    states = sum(p[1][0]["states"] for p in parts)
    trans = sum(p[1][0]["transitions"] for p in parts)
    cov = {
        "states": states, "transitions": trans, "traces_validated_against_impl": trans,
        "samples": samples[:4] or [{"tree": "flat", "history": []}],
        "exhaustive": not any(p[1][0]["cap_hit"] for p in parts),
        "parts": {n: p[0] for n, p in parts},
        "trees": TREES,
        "rule": "state = tree shape + rounded paths of all objects; transition = one op of the alphabet on any object "
                "whose subtree shares its path length; oracle = index-mapped relative pose of every descendant, "
                "byte-identity outside the subtree, path model for the operated object, own-sensor field",
    }
    cov["shared_input_and_small_offset_cases"] = len(etasks)
    if trans < 1000:
        harness.append("vacuous: fewer than 1000 transitions")
    return {"coverage": cov, "violations": viols, "harness_errors": harness[:5],
            "assumptions": ["ops on a collection are enabled only when all its descendants share its path length "
                            "(the property's precondition)"]}


def replay(case):
    if "extra_case" in case:
        r = work_extra(case["extra_case"])
        return {"violated": bool(r) and not r[0].startswith("HARNESS"), "observed": r}
    st = {k: (np.array(v[0]), np.array(v[1])) for k, v in case["state"].items()}
    problems, _, enabled = check_transition(case["tree"], st, case["target"], tuple(case["op"]), False)
    return {"violated": bool(problems), "observed": problems}
