"""C11 - the collection tree stays a consistent forest under any history.

Explicit-state BFS over the REAL tree-editing API. A state is identified by the canonical form of
the object graph (names instead of ids); it is rebuilt by replaying the shortest history that
reached it on fresh objects. After EVERY transition (also those that raise) the forest invariant
(DESIGN A.3) is evaluated; on transitions that return normally the result is also compared with a
boring reference forest (parent map + ordered child lists).
"""
import itertools

from mc import common

LEVEL = "model_checking"

SRC, SENS, COLL = "src", "sens", "coll"
KIND = {"a": SRC, "b": SRC, "s": SENS, "X": COLL, "Y": COLL, "Z": COLL, "P": COLL}


# ------------------------------------------------------------------ real objects
def mk(name):
    import magpylib as magpy

    k = KIND[name]
    if name == "b":   # a source that is complete as a tree member although it cannot compute a field yet (no field function)
        return magpy.misc.CustomSource(style_label=name)
    if k == SRC:
        return magpy.magnet.Sphere(diameter=1, polarization=(0, 0, 1), style_label=name)
    if k == SENS:
        return magpy.Sensor(style_label=name)
    return magpy.Collection(style_label=name)


def fresh(names):
    return {n: mk(n) for n in names}


def g(objs, n):
    return "bad" if n == "BAD" else objs[n]


def apply_impl(objs, op):
    """Apply one op through the public API. Returns (outcome, extra objects created)."""
    import magpylib as magpy
    from magpylib._src.exceptions import MagpylibBadUserInput

    extra = []
    try:
        kind = op[0]
        if kind == "add":
            objs[op[1]].add(*[g(objs, x) for x in op[2]], override_parent=op[3])
        elif kind == "addlist":
            objs[op[1]].add([g(objs, x) for x in op[2]], override_parent=op[3])
        elif kind == "addlive":   # the LIVE list a getter of another (or the same) collection returns, handed over as it is
            objs[op[1]].add(getattr(objs[op[2]], op[3]), override_parent=op[4])
        elif kind == "ctorlive":
            res = magpy.Collection(getattr(objs[op[1]], op[2]), override_parent=op[3])
            extra.append(res)
        elif kind == "remove":
            objs[op[1]].remove(*[g(objs, x) for x in op[2]], recursive=op[3], errors=op[4])
        elif kind == "set":
            setattr(objs[op[1]], op[2], [g(objs, x) for x in op[3]])
        elif kind == "parent":
            objs[op[1]].parent = None if op[2] is None else g(objs, op[2])
        elif kind == "plus":
            res = objs[op[1]] + objs[op[2]]
            extra.append(res)
        elif kind == "ctor":
            res = magpy.Collection(*[g(objs, x) for x in op[1]], override_parent=op[2])
            extra.append(res)
        elif kind == "copy":
            res = objs[op[1]].copy()
            extra.append(res)
        elif kind == "copykw":
            if op[2].startswith("parent:"):
                res = objs[op[1]].copy(parent=objs[op[2][7:]])
            else:
                res = objs[op[1]].copy(**COPY_BAD_KW[op[2]])
            extra.append(res)
        else:
            raise AssertionError(op)
        return "ok", extra
    except MagpylibBadUserInput:
        return "MagpylibBadUserInput", extra
    except RecursionError:
        return "RecursionError", extra
    except Exception as e:  # any other type is itself reported
        return type(e).__name__, extra


# copy(**kwargs) applies the keywords to the copy; a rejected keyword must leave the original where it was
COPY_BAD_KW = {"position_bad": {"position": "bad"}, "orientation_bad": {"orientation": 1},
               "style_bad": {"style_nonexistent": 1}, "label_then_bad": {"style_label": "x", "position": (1, 2)}}


# ------------------------------------------------------------------ invariant A.3
def closure(objs, extra=()):
    """All objects reachable from the universe through _children and _parent."""
    out, seen = [], set()
    stack = list(objs.values()) + list(extra)
    while stack:
        o = stack.pop()
        if id(o) in seen or isinstance(o, str):
            continue
        seen.add(id(o))
        out.append(o)
        if getattr(o, "_parent", None) is not None:
            stack.append(o._parent)
        stack.extend(getattr(o, "_children", []))
    return out


def preorder(c, typ, seen=None):
    res = []
    for ch in c._children:
        if isinstance(ch, typ):
            res.append(ch)
        if hasattr(ch, "_children"):
            res += preorder(ch, typ)
    return res


def invariant(objs, extra=(), check_describe=True):
    import magpylib as magpy
    from magpylib._src.obj_classes.class_BaseExcitations import BaseSource

    errs = []
    allobjs = closure(objs, extra)
    cyc = False
    for o in allobjs:
        p = o._parent
        if p is not None:
            if not isinstance(p, magpy.Collection):
                errs.append("parent-not-collection")
                continue
            cnt = sum(1 for c in p._children if c is o)
            if cnt != 1:
                errs.append(f"parent-lists-child-{cnt}x")
        if isinstance(o, magpy.Collection):
            for c in o._children:
                if isinstance(c, str) or not hasattr(c, "_parent"):
                    errs.append("illtyped-child")
                elif c._parent is not o:
                    errs.append("child-parent-mismatch")
            if len({id(c) for c in o._children}) != len(o._children):
                errs.append("duplicate-child")
            for attr, typ in (("_sources", BaseSource), ("_sensors", magpy.Sensor), ("_collections", magpy.Collection)):
                if [id(c) for c in getattr(o, attr)] != [id(c) for c in o._children if isinstance(c, typ)]:
                    errs.append(f"stale{attr}")
            q, k = o._parent, 0
            while q is not None and k < 50:
                if q is o:
                    errs.append("cycle")
                    cyc = True
                    break
                q, k = q._parent, k + 1
            # children-level self containment
            if any(c is o for c in o._children):
                errs.append("cycle")
                cyc = True
    if not cyc and not any(e == "illtyped-child" for e in errs):
        for o in allobjs:
            if isinstance(o, magpy.Collection):
                try:
                    views = {
                        "children_all": (o.children_all, (BaseSource, magpy.Sensor, magpy.Collection)),
                        "sources_all": (o.sources_all, BaseSource),
                        "sensors_all": (o.sensors_all, magpy.Sensor),
                        "collections_all": (o.collections_all, magpy.Collection),
                    }
                    for nm, (got, typ) in views.items():
                        if [id(x) for x in got] != [id(x) for x in preorder(o, typ)]:
                            errs.append(f"wrong-{nm}")
                    # public views are the private lists
                    if o.children is not o._children or o.sources is not o._sources:
                        pass
                    if not check_describe:
                        continue
                    desc = o.describe(format="label", return_string=True).split("\n")[1:]
                    labs = [ln.lstrip("│├└─  ") for ln in desc]
                    exp = [x.style.label for x in preorder(o, (BaseSource, magpy.Sensor, magpy.Collection))]
                    if labs != exp:
                        errs.append("describe-differs")
                except RecursionError:
                    errs.append("cycle")
    return sorted(set(errs))


def canon(objs, extra=()):
    inv = {id(o): n for n, o in objs.items()}

    def nm(o):
        if isinstance(o, str):
            return "BADSTR"
        return inv.get(id(o), "PHANTOM")

    st = []
    for n in sorted(objs):
        o = objs[n]
        if hasattr(o, "_children"):
            st.append((n, tuple(nm(c) for c in o._children), tuple(nm(c) for c in o._sources),
                       tuple(nm(c) for c in o._sensors), tuple(nm(c) for c in o._collections)))
    par = tuple((n, None if objs[n]._parent is None else nm(objs[n]._parent)) for n in sorted(objs))
    return (tuple(st), par)


# ------------------------------------------------------------------ reference forest
class Forest:
    def __init__(self, names):
        self.parent = {n: None for n in names}
        self.children = {n: [] for n in names if KIND[n] == COLL}

    @classmethod
    def of(cls, objs):
        f = cls(list(objs))
        inv = {id(o): n for n, o in objs.items()}
        for n, o in objs.items():
            if hasattr(o, "_children"):
                f.children[n] = [inv[id(c)] for c in o._children]
            f.parent[n] = None if o._parent is None else inv[id(o._parent)]
        return f

    def desc(self, c):
        out = []
        for ch in self.children.get(c, []):
            out.append(ch)
            out += self.desc(ch)
        return out

    def detach(self, o):
        p = self.parent[o]
        if p is not None:
            self.children[p].remove(o)
            self.parent[o] = None

    def add(self, c, objs, ov):
        """documented semantics; returns False when the call must be rejected"""
        for o in objs:
            if o == "BAD":
                return False
            if KIND[o] == COLL and (o == c or c in self.desc(o)):
                return False
            if self.parent[o] is not None and not ov:
                return False
            self.detach(o)
            self.parent[o] = c
            self.children[c].append(o)
        return True

    def remove(self, c, objs, recursive, errors):
        for o in objs:
            if o == "BAD":
                return False
            scope = self.desc(c) if recursive else list(self.children[c])
            if o in scope:
                self.detach(o)
            elif errors != "ignore":
                return False
        return True

    def key(self):
        return (tuple(sorted((k, tuple(v)) for k, v in self.children.items())),
                tuple(sorted(self.parent.items(), key=lambda kv: kv[0])))


def model_expect(f, op):
    """Returns 'reject', a Forest (expected result) or None when the model makes no statement."""
    import copy

    m = copy.deepcopy(f)
    kind = op[0]
    if kind in ("add", "addlist"):
        if len(set(op[2])) != len(op[2]):
            return None  # duplicate arguments: documented semantics are silent
        return m if m.add(op[1], op[2], op[3]) else "reject"
    if kind == "addlive":
        want = {"children": (SRC, SENS, COLL), "sources": (SRC,), "sensors": (SENS,), "collections": (COLL,)}[op[3]]
        lst = [x for x in m.children[op[2]] if KIND[x] in want]
        if not lst:
            return None
        return m if m.add(op[1], lst, op[4]) else "reject"
    if kind == "remove":
        if op[4] not in ("raise", "ignore"):
            return None
        if len(set(op[2])) != len(op[2]):
            return None
        return m if m.remove(op[1], op[2], op[3], op[4]) else "reject"
    if kind == "parent":
        if op[2] == "BAD":
            return "reject"
        if op[2] is None:
            m.detach(op[1])
            return m
        return m if m.add(op[2], [op[1]], True) else "reject"
    if kind == "set":
        c, attr, lst = op[1], op[2], op[3]
        want = {"children": (SRC, SENS, COLL), "sources": (SRC,), "sensors": (SENS,), "collections": (COLL,)}[attr]
        if "BAD" in lst or len(set(lst)) != len(lst) or any(KIND[x] not in want for x in lst):
            return None
        for ch in list(m.children[c]):
            if KIND[ch] in want:
                m.detach(ch)
        return m if m.add(c, list(lst), True) else "reject"
    return None


# ------------------------------------------------------------------ alphabet
def alphabet(names, tier_full=True):
    colls = [n for n in names if KIND[n] == COLL]
    ops = []
    pairs = list(itertools.product(names, repeat=2))
    for c in colls:
        for o in names:
            for ov in (False, True):
                ops.append(("add", c, (o,), ov))
        for o1, o2 in pairs:
            for ov in (False, True):
                ops.append(("add", c, (o1, o2), ov))
        ops.append(("add", c, ("BAD",), False))
        ops.append(("add", c, (names[0], "BAD"), False))
        ops.append(("add", c, (names[0], "BAD"), True))
        ops.append(("addlist", c, (names[0], names[1]), False))
        for c2 in colls:
            for view in ("children", "sources", "sensors", "collections"):
                for ov in (False, True):
                    ops.append(("addlive", c, c2, view, ov))
        for view in ("children", "sources"):
            ops.append(("ctorlive", c, view, True))
        for o in names:
            for rec in (True, False):
                for er in ("raise", "ignore"):
                    ops.append(("remove", c, (o,), rec, er))
            ops.append(("remove", c, (o,), True, "bad"))
        for o1, o2 in pairs:
            ops.append(("remove", c, (o1, o2), True, "raise"))
            ops.append(("remove", c, (o1, o2), True, "ignore"))
        for attr in ("children", "sources", "sensors", "collections"):
            lists = [()] + [(o,) for o in names] + pairs
            for l in lists:
                ops.append(("set", c, attr, l))
            ops.append(("set", c, attr, ("BAD",)))
            ops.append(("set", c, attr, (names[0], "BAD")))
            ops.append(("set", c, attr, ("BAD", names[0])))
    for o in names:
        for c in colls + [None, "BAD"]:
            ops.append(("parent", o, c))
        ops.append(("copy", o))
        for kwn in COPY_BAD_KW:
            ops.append(("copykw", o, kwn))
        for c in colls:
            ops.append(("copykw", o, "parent:" + c))
    for o1, o2 in pairs:
        ops.append(("plus", o1, o2))
        for ov in (False, True):
            ops.append(("ctor", (o1, o2), ov))
    for o in names:
        for ov in (False, True):
            ops.append(("ctor", (o,), ov))
    return ops


# ------------------------------------------------------------------ exploration
def replay_history(names, hist):
    objs = fresh(names)
    for h in hist:
        apply_impl(objs, h)
    return objs


def check_copy(objs, op, extra):
    """op == copy: the copy is parentless, its own subtree is a consistent forest, shares no node."""
    errs = []
    if not extra:
        return errs
    cp = extra[0]
    if cp._parent is not None:
        errs.append("copy-has-parent")
    ids_orig = {id(o) for o in closure(objs)}
    sub = closure({"cp": cp})
    if any(id(o) in ids_orig for o in sub):
        errs.append("copy-shares-node")
    return errs


def check_copykw(objs, op, extra, outcome, before):
    errs = []
    if not op[2].startswith("parent:"):
        if outcome == "ok":
            errs.append("copykw-invalid-keyword-accepted")
        if canon(objs) != before:
            errs.append("rejected-copy-changed-original")
        return errs
    if outcome != "ok" or not extra:
        return ["copykw-parent-failed-" + outcome]
    cp, tgt = extra[0], objs[op[2][7:]]
    if cp._parent is not tgt or not tgt._children or tgt._children[-1] is not cp:
        errs.append("copy-not-appended-to-requested-parent")
    ids_orig = {id(o) for o in objs.values()}
    if any(id(o) in ids_orig for o in closure({"cp": cp}) if o is not tgt and id(o) not in {id(q) for q in closure({"t": tgt}) if q is not cp}):
        errs.append("copy-shares-node")
    # apart from the new child the universe must be unchanged
    (st, par), (st0, par0) = canon(objs), before
    st = tuple((n,) + tuple(tuple(x for x in lst if x != "PHANTOM") if n == op[2][7:] else lst for lst in rest)
               for (n, *rest) in st)
    st0 = tuple((n,) + tuple(rest) for (n, *rest) in st0)
    if (st, par) != (st0, par0):
        errs.append("copy-with-parent-changed-original")
    return errs


def expand(task):
    names, hist, ops = task
    out = []
    for op in ops:
        objs = replay_history(names, hist)
        before = canon(objs)
        f = Forest.of(objs) if "PHANTOM" not in repr(before) else None
        outcome, extra = apply_impl(objs, op)
        errs = invariant(objs, extra)
        if op[0] == "copy":
            errs = sorted(set(errs + check_copy(objs, op, extra)))
            if canon(objs) != before:
                errs.append("copy-changed-original")
        if op[0] == "copykw":
            errs = sorted(set(errs + check_copykw(objs, op, extra, outcome, before)))
        elif outcome not in ("ok", "MagpylibBadUserInput"):
            errs.append("exception-" + outcome)
        after = canon(objs, extra)
        # model comparison on successful calls
        if f is not None and not errs:
            exp = model_expect(f, op)
            if exp == "reject" and outcome == "ok":
                errs.append("model-rejects-impl-accepts")
            elif isinstance(exp, Forest) and outcome == "ok":
                if exp.key() != Forest.of(objs).key():
                    errs.append("model-differs")
        phantom = "PHANTOM" in repr(after)
        out.append((op, outcome, tuple(errs), after, phantom))
    return out


def explore(names, seeds, max_depth, state_cap, key_prefix):
    ops = alphabet(names)
    seen = {}
    frontier = []
    viols = []
    for h in seeds:
        objs = replay_history(names, h)
        errs0 = invariant(objs)
        if errs0:   # the start state itself breaks the invariant: a finding, not expanded
            if h:
                viols.append({"key": f"{key_prefix}|{h[-1][0]}|ok|{'+'.join(errs0)}", "what": f"start history {list(h)}: {list(errs0)}",
                              "case": {"names": names, "history": [list(x) for x in h[:-1]], "op": list(h[-1])}, "observed": list(errs0)})
            continue
        c = canon(objs)
        if c not in seen:
            seen[c] = tuple(h)
            frontier.append(c)
    stats = dict(transitions=0, outcomes={}, inconsistent=0, phantom_states=0, max_depth=0, cap_hit=False)
    depth = 0
    samples = []
    while frontier and depth < max_depth:
        depth += 1
        tasks = [(names, seen[c], ops) for c in frontier]
        results = common.pmap(expand, tasks, chunk=max(1, len(tasks) // (common.NCPU * 4)))
        nxt = []
        for c, res in zip(frontier, results):
            hist = seen[c]
            for op, outcome, errs, after, phantom in res:
                stats["transitions"] += 1
                stats["outcomes"][outcome] = stats["outcomes"].get(outcome, 0) + 1
                if errs:
                    stats["inconsistent"] += 1
                    key = f"{key_prefix}|{op[0]}|{outcome}|{'+'.join(errs)}"
                    viols.append({"key": key,
                                  "what": f"after history {list(hist)} op {op} -> {outcome}: {list(errs)}",
                                  "case": {"names": names, "history": [list(h) for h in hist], "op": list(op)},
                                  "observed": list(errs)})
                    continue
                if phantom:
                    stats["phantom_states"] += 1
                    continue  # checked, not expanded (unnamed new collection)
                if after not in seen:
                    if len(seen) >= state_cap:
                        stats["cap_hit"] = True
                        continue
                    seen[after] = hist + (op,)
                    nxt.append(after)
                    stats["max_depth"] = max(stats["max_depth"], len(hist) + 1)
                    if len(samples) < 3 and len(hist) >= 1:
                        samples.append({"history": [list(h) for h in hist + (op,)]})
        frontier = nxt
    stats["fixpoint"] = not frontier and not stats["cap_hit"]
    stats["states"] = len(seen)
    stats["ops_per_state"] = len(ops)
    stats["samples"] = samples
    stats["frontier_left"] = len(frontier)
    return stats, viols


U4 = ["a", "s", "X", "Y"]
U6 = ["a", "b", "s", "X", "Y", "Z"]
SEEDS6 = [
    (),
    (("add", "X", ("a",), False),),
    (("add", "X", ("a", "s"), False), ("add", "Y", ("X",), False)),
    (("add", "X", ("a",), False), ("add", "Y", ("b", "s"), False)),
    (("add", "Z", ("a",), False), ("add", "Y", ("Z", "b"), False), ("add", "X", ("Y", "s"), False)),
    (("add", "X", ("Y", "Z"), False), ("add", "Y", ("a",), False), ("add", "Z", ("b", "s"), False)),
    (("add", "X", ("a", "b", "s"), False),),
    (("add", "X", ("a",), False), ("add", "Y", ("b",), False), ("add", "Z", ("s",), False)),
]


def run(tier, seed):
    parts = []
    viols = []
    # U4: closure (fixpoint expected at depth 3)
    st4, v4 = explore(U4, [()], max_depth=12, state_cap=100000, key_prefix="C11")
    parts.append(("U4-closure", st4))
    viols += v4
    if tier == "quick":
        st6, v6 = explore(U6, SEEDS6, max_depth=1, state_cap=100000, key_prefix="C11")
        parts.append(("U6-depth1-from-8-seeds", st6))
    else:
        st6, v6 = explore(U6, SEEDS6, max_depth=12, state_cap=1500, key_prefix="C11")
        parts.append(("U6-closure-cap1500", st6))
    viols += v6
    states = sum(p[1]["states"] for p in parts)
    trans = sum(p[1]["transitions"] for p in parts)
    outcomes = {}
    for _, p in parts:
        for k, v in p["outcomes"].items():
            outcomes[k] = outcomes.get(k, 0) + v
    cov = {
        "states": states,
        "transitions": trans,
        "traces_validated_against_impl": trans,
        "samples": [s for _, p in parts for s in p["samples"]][:5] or [{"history": []}],
        "exhaustive": all(p[1]["fixpoint"] for p in parts) if tier == "thorough" else parts[0][1]["fixpoint"],
        "distinct_outcomes": outcomes,
        "parts": {n: {k: v for k, v in p.items() if k not in ("samples",)} for n, p in parts},
        "rule": "state = canonical (children lists, typed lists, parent map) by name; every op of the "
                "alphabet applied to every reached consistent state through the public API; invariant A.3 "
                "checked after every transition incl. raising ones; reference forest compared on returns",
        "inconsistent_transitions": sum(p[1]["inconsistent"] for p in parts),
    }
    harness = []
    if not parts[0][1]["fixpoint"]:
        harness.append("U4 closure did not reach a fixpoint")
    if len(outcomes) < 2:
        harness.append("vacuous: only one outcome kind observed")
    return {"coverage": cov, "violations": viols, "harness_errors": harness,
            "assumptions": ["phantom collections created by + / Collection() are checked but not expanded",
                            "atomicity of failing edits is not demanded, only the forest invariant"]}


def replay(case):
    names = case["names"]

    def tup(op):
        return tuple(tuple(x) if isinstance(x, list) else x for x in op)

    hist = [tup(h) for h in case["history"]]
    op = tup(case["op"])
    res = expand((names, hist, [op]))[0]
    return {"violated": bool(res[2]), "observed": {"outcome": res[1], "errors": list(res[2])}}
