"""C12 - results are invariant under the choice of length unit.

Grid explorer (metamorphic, no reference field): class x regime x observer cell x length scale 10^k
(k = -9..9, walked decade by decade; every decade is compared with k = 0 and with its neighbour) x
excitation magnitude. Magnets: B, H, J unchanged; currents: field / s; dipoles: field / s^3; all fields
proportional to the excitation. Discrete outputs (TriangularMesh status flags, reoriented faces,
Tetrahedron chirality handling, inside masks via J) must be identical at every scale.
"""
import numpy as np

from mc import common
from mc.props import C01

LEVEL = "exploration"
RTOL = 1e-7
RTOL_EXT = 1e-6

CLASSES = ["Cuboid", "Cylinder", "CylinderSegment", "Sphere", "Tetrahedron", "TetrahedronLeft", "TriangularMesh", "TriangularMeshFromMesh",
           "TriangularMeshOffset", "TriangularMeshPair", "Triangle", "Circle", "Polyline", "Dipole"]
POSE = ((0.3, -0.2, 0.5), (0.4, -0.3, 0.8))
POSES = [POSE, ((-1.0, 2.0, 0.1), (0.0, 0.0, 2.2)), ((0.0, 0.0, 0.0), (0.0, 0.0, 0.0))]


MESH_VARIANTS = {"TriangularMeshFromMesh": "from_mesh", "TriangularMeshOffset": "offset", "TriangularMeshPair": "pair"}


def params(cls, ri):
    if cls == "TetrahedronLeft":  # left-handed vertex order: the chirality fix must not depend on the unit
        v = C01.TV
        return "Tetrahedron", {"vertices": [v[0], v[2], v[1], v[3]]}
    if cls in MESH_VARIANTS:   # the same bodies through the triangle-soup constructor / other local coordinates / in company
        return "TriangularMesh", C01.REGIMES["TriangularMesh"][ri]
    return cls, C01.REGIMES[cls][ri]


def nregimes(cls, tier="quick"):
    if cls == "TetrahedronLeft":
        return 1
    if cls in MESH_VARIANTS:
        cls = "TriangularMesh"
    return len(C01.REGIMES[cls]) if tier == "thorough" else min(3, len(C01.REGIMES[cls]))


def scaled_source(cls0, par, s, exc_mag, pose, via=None):
    import magpylib as magpy
    from scipy.spatial.transform import Rotation as R

    par2 = {}
    for k, v in par.items():
        if k == "faces":
            par2[k] = v
        elif k == "dimension" and cls0 == "CylinderSegment":
            d = np.array(v, float)
            par2[k] = (d[0] * s, d[1] * s, d[2] * s, d[3], d[4])
        else:
            par2[k] = (np.array(v, float) * s).tolist() if not np.isscalar(v) else v * s
    exc = np.array(C01.EXC[0]) * exc_mag
    p = (np.array(pose[0]) * s, pose[1])
    if via == "from_mesh":
        soup = np.array(par2["vertices"], float)[np.array(par2["faces"])]
        return magpy.magnet.TriangularMesh.from_mesh(mesh=soup, polarization=tuple(exc), position=p[0], orientation=R.from_rotvec(p[1]),
                                                     check_open="ignore", check_disconnected="ignore", check_selfintersecting="ignore",
                                                     reorient_faces="ignore")
    if via == "offset":
        # the same body described in local coordinates that are all negative (vertices shifted, position compensating)
        v = np.array(par2["vertices"], float)
        off = v.max(axis=0) + 0.37 * s
        Rm = R.from_rotvec(p[1])
        return magpy.magnet.TriangularMesh(vertices=v - off, faces=par2["faces"], polarization=tuple(exc), position=p[0] + Rm.apply(off),
                                           orientation=Rm)
    if via == "pair":
        # evaluated in one call behind a companion: the same mesh topology shrunk to half size about its centroid, at the same pose
        v = np.array(par2["vertices"], float)
        c0 = v.mean(axis=0)
        comp = magpy.magnet.TriangularMesh(vertices=c0 + 0.5 * (v - c0), faces=par2["faces"], polarization=tuple(-0.7 * exc[::-1]),
                                           position=p[0], orientation=R.from_rotvec(p[1]))
        return _Pair(comp, C01.make(cls0, par2, tuple(exc), p))
    if via == "ops":
        # the same pose reached through the API: built at another place, moved, then rotated about an anchor next to it
        # (final position = a + R (p0 - a)); all lengths, also the anchor offset, carry the unit
        Rm = R.from_rotvec(p[1])
        a = p[0] + np.array((0.013, -0.021, 0.017)) * s
        p0 = a + Rm.inv().apply(p[0] - a)
        if cls0 in ("Circle", "Polyline"):
            C = magpy.current.Circle if cls0 == "Circle" else magpy.current.Polyline
            o = C(current=2.3 * exc_mag, **par2)
        else:
            o = C01.make(cls0, par2, tuple(exc), ((0.0, 0.0, 0.0), (0.0, 0.0, 0.0)))
        o.move(p0)
        o.rotate(Rm, anchor=a)
        return o
    if cls0 in ("Circle", "Polyline"):
        C = magpy.current.Circle if cls0 == "Circle" else magpy.current.Polyline
        return C(current=2.3 * exc_mag, position=p[0], orientation=R.from_rotvec(p[1]), **par2)
    return C01.make(cls0, par2, tuple(exc), p)


class _Pair:
    """[companion, body] evaluated in ONE call; reports the body's rows"""

    def __init__(self, comp, body):
        self.comp, self.body = comp, body
        for a in ("status_open", "status_disconnected", "status_selfintersecting", "status_reoriented", "faces"):
            setattr(self, a, getattr(body, a))

    def _get(self, f, obs):
        import magpylib as magpy

        return np.asarray(getattr(magpy, "get" + f)([self.comp, self.body], obs))[1]

    def getB(self, obs):
        return self._get("B", obs)

    def getH(self, obs):
        return self._get("H", obs)

    def getJ(self, obs):
        return self._get("J", obs)


def law(cls0):
    return {"Circle": 1, "Polyline": 1, "Dipole": 3}.get(cls0, 0)   # field * s^law is invariant


def run_case(c):
    from scipy.spatial.transform import Rotation as R

    cls, ri, ks, mags = c["cls"], c["regime"], c["ks"], c["mags"]
    cls0, par = params(cls, ri)
    locs, exts = [], []
    for sd in c.get("seeds", [0]):
        l_, e_ = C01.cells(cls0, par if cls0 != "Dipole" else {}, "quick", sd)
        locs.append(l_)
        exts.append(e_)
    if cls in MESH_VARIANTS:
        # interior points on the rays centroid -> vertex / face centre (the C01 cell set has few points deep inside a mesh)
        v = np.array(par["vertices"], float)
        c0 = v.mean(axis=0)
        ends = np.concatenate([v, v[np.array(par["faces"])].mean(axis=1)])
        extra = np.array([c0 + t * (e - c0) for e in ends[:40] for t in (0.3, 0.6, 0.9, 1.2)]) + 1e-3 * np.array((0.31, -0.17, 0.23))
        locs.append(extra)
        exts.append(np.zeros(len(extra), bool))
    loc, ext = np.concatenate(locs), np.concatenate(exts)
    _, first = np.unique(np.round(loc, 15), axis=0, return_index=True)
    first = np.sort(first)
    loc, ext = loc[first], ext[first]
    keep = ~C01.on_source(cls0, par, loc)
    loc, ext = loc[keep], ext[keep]
    if len(loc) > c.get("maxcells", 400):
        idx = np.linspace(0, len(loc) - 1, c.get("maxcells", 400)).astype(int)
        loc, ext = loc[idx], ext[idx]
    POSE = POSES[c.get("pose", 0)]
    Rm = R.from_rotvec(POSE[1])
    obs1 = Rm.apply(loc) + np.array(POSE[0])
    fields = ["B", "H"] + (["J"] if cls0 in C01.MAGNETS else [])
    # the comparison can not be sharper than the accuracy model of C01 for the cell (far-field cancellation noise)
    from mc.oracles import geometry as geo

    size0 = geo.size_of(cls0, par) if cls0 != "Dipole" else 1.0
    c0 = np.array(par["vertices"], float).mean(axis=0) if "vertices" in par else 0.0
    dist = np.linalg.norm(loc - c0, axis=1) / size0
    c01tol = np.minimum(1e-3, C01.TOL[cls0] + C01.FAR_GROWTH.get(cls0, 0.0) * np.maximum(dist, 1.0) ** 3)
    size = 1.0
    results = {}
    problems = []

    def evaluate(k, mag):
        # the converter variant uses a unit whose numbers are not round in any decade (a grid-snapping converter then shows)
        s = 10.0 ** k * (1.23456789 if cls in MESH_VARIANTS else 1.0)
        try:
            with common.time_limit(120):
                via = MESH_VARIANTS.get(cls) or ("ops" if c.get("pose_by_ops") else None)
                src = scaled_source(cls0, par, s, mag, POSE, via)
                out = {}
                for f in fields:
                    v = np.asarray(getattr(src, "get" + f)(obs1 * s)).reshape(-1, 3)
                    out[f] = v * (s ** law(cls0)) / mag
                disc = None
                if cls0 == "TriangularMesh":
                    disc = (src.status_open, src.status_disconnected, src.status_selfintersecting, src.status_reoriented,
                            np.asarray(src.faces).tolist())
                return out, disc
        except Exception as e:
            return f"raised {type(e).__name__}: {e}"[:150], None

    base, disc0 = evaluate(0, 1.0)
    if isinstance(base, str):
        return [("k=0", "raised", base)]
    prev = base
    order = sorted(ks, key=lambda k: (abs(k), k))
    chains = {1: base, -1: base}
    for k in order:
        if k == 0:
            continue
        for mag in (mags if k in (-9, -3, 3, 9, -6, 6) else [1.0]):
            cur, disc = evaluate(k, mag)
            if isinstance(cur, str):
                problems.append((k, "raised", cur))
                continue
            if disc0 is not None and disc != disc0:
                what = "status-flags" if disc[:4] != disc0[:4] else "reoriented-faces"
                problems.append((k, f"discrete-{what}", f"{disc[:4]} vs {disc0[:4]}"))
            for f in fields:
                refs = [("k=0", base[f])]
                if mag == 1.0:
                    refs.append(("neighbour", chains[np.sign(k)][f]))
                for rname, ref in refs:
                    sc = np.maximum(np.linalg.norm(ref, axis=1), 1e-3 * np.max(np.linalg.norm(ref, axis=1)))
                    err = np.linalg.norm(cur[f] - ref, axis=1) / sc
                    tol = np.maximum(np.where(ext, RTOL_EXT, RTOL), c01tol)
                    bad = ~(err <= tol)
                    if f == "J":
                        bad = np.linalg.norm(cur[f] - ref, axis=1) > 1e-12 * np.max(np.linalg.norm(ref, axis=1) + 1e-300)
                    if bad.any():
                        # one report per distinct cell kind among the deviating cells (so that a known finding in one
                        # kind of cell cannot hide a new deviation in another)
                        labels = ["ext" if ext[j] else C01.cell_label(cls0, par, loc[j]) for j in np.where(bad)[0]]
                        for lab in sorted(set(labels)):
                            js = [j for j, l in zip(np.where(bad)[0], labels) if l == lab]
                            i = int(js[int(np.argmax(np.nan_to_num(err[js], nan=np.inf)))])
                            problems.append((k, f"{f}-changes-with-unit|{lab}|vs-{rname}" + ("" if mag == 1.0 else "|excitation-scaled"),
                                             f"{len(js)} {lab} cells, worst rel {err[i]:.3g} at local {loc[i].tolist()} mag={mag}"))
                        break
            if mag == 1.0:
                chains[np.sign(k)] = cur
    return [(int(k), kind, detail) for k, kind, detail in problems]


# ------------------------------------------------------------------ exact special sets under exact (power of two) scaling
SURF_EXPONENTS = (-30, -20, -10, 10, 20, 30)   # 2^-30 = 9.3e-10 ... 2^30 = 1.07e9


def run_surface(c):
    """Multiplying all lengths by a power of two is exact in binary floating point: every comparison between
    coordinates keeps its outcome, so the inside/outside decision (read through J) at EVERY cell of the special-set
    lattice - exact faces, edges, corners, rims, cut planes and their one-ulp neighbours - must be identical at all
    scales; a difference can only come from an absolute length hidden in the code. Local frame = global frame."""
    from mc.oracles import geometry as geo
    from mc.props import C02

    cls, ri = c["cls"], c["regime"]
    par = C02.REGIMES[cls][ri]
    loc = geo.cells(cls, par, "full")
    cl = geo.classify(cls, par, loc)
    pol = (0.2, -0.3, 0.9)
    out = {}
    problems = []
    for e in (0,) + tuple(c.get("exponents", SURF_EXPONENTS)):
        s = 2.0 ** e
        par2 = {}
        for k, v in par.items():
            if k == "faces":
                par2[k] = v
            elif k == "dimension" and cls == "CylinderSegment":
                d = np.array(v, float)
                par2[k] = (d[0] * s, d[1] * s, d[2] * s, d[3], d[4])
            else:
                par2[k] = (np.array(v, float) * s).tolist() if not np.isscalar(v) else v * s
        try:
            with common.time_limit(120):
                src = C02.make(cls, par2, pol, ((0.0, 0.0, 0.0), (0.0, 0.0, 0.0)))
                out[e] = np.asarray(src.getJ(loc * s)).reshape(-1, 3)
        except Exception as ex:
            problems.append((e, "surface-raised", f"{type(ex).__name__}: {ex}"[:120]))
            continue
        if e == 0:
            continue
        diff = np.any(out[e] != out[0], axis=1) & np.isfinite(out[e]).all(1) & np.isfinite(out[0]).all(1)
        for lab, sel in (("on-surface", cl == 0), ("inside", cl == 1), ("outside", cl == -1)):
            js = np.where(diff & sel)[0]
            if len(js):
                i = int(js[0])
                problems.append((e, f"J-mask-changes-with-exact-scaling|{lab}",
                                 f"{len(js)} {lab} cells, first at local {loc[i].tolist()}: J(1)={out[0][i].tolist()} J(2^{e})={out[e][i].tolist()}"))
    return [(int(k), kind, detail) for k, kind, detail in problems], len(loc) * (len(SURF_EXPONENTS) + 1)


def work(c):
    try:
        if c.get("part") == "surface":
            return run_surface(c)[0]
        return run_case(c)
    except Exception as e:
        import traceback

        return [("x", "HARNESS", f"{type(e).__name__}: {e} {traceback.format_exc()[-300:]}")]


def decade_bucket(k):
    if k <= -7:
        return "k<=-7"
    if k <= -5:
        return "k=-6..-5"
    if k <= -3:
        return "k=-4..-3"
    if k < 0:
        return "k=-2..-1"
    if k <= 2:
        return "k=1..2"
    if k <= 5:
        return "k=3..5"
    return "k>=6"


def run(tier, seed):
    ks = [-9, -6, -3, 3, 6, 9] if tier == "quick" else [k for k in range(-9, 10) if k != 0]
    cases = []
    for cls in CLASSES:
        for ri in range(nregimes(cls, tier)):
            for pose in ((0, 1, 2) if tier == "thorough" else (0, 1)):
                cases.append({"cls": cls, "regime": ri, "ks": ks, "mags": [1.0, 1e-12, 1e12], "maxcells": 300 if tier == "quick" else 100000,
                              "pose": pose, "seeds": [0, 1] if tier == "quick" else [0, 1, 2, 3]})
            if cls not in MESH_VARIANTS and (ri == 0 or tier == "thorough"):
                cases.append({"cls": cls, "regime": ri, "ks": ks, "mags": [1.0], "maxcells": 100, "pose": 0, "seeds": [0], "pose_by_ops": True})
    from mc.props import C02

    exps = list(SURF_EXPONENTS) if tier == "quick" else [e for e in range(-30, 31, 3) if e != 0]
    scases = [{"part": "surface", "cls": cls, "regime": ri, "exponents": exps} for cls in C02.MAGNETS for ri in range(len(C02.REGIMES[cls]))]
    res = common.pmap(work, cases + scases, chunk=1)
    viols, harness = [], []
    n = 0
    for c, r in zip(cases + scases, res):
        if c.get("part") == "surface":
            n += len(SURF_EXPONENTS)
            for k, kind, detail in r:
                if kind == "HARNESS":
                    harness.append(f"{c['cls']}: {detail}")
                    continue
                viols.append({"key": f"C12|{c['cls']}|surface|2^{k}|{kind}", "what": f"{c['cls']} regime {c['regime']} scale 2^{k}: {kind}: {detail}",
                              "case": c, "observed": [k, kind, detail]})
            continue
        n += len(c["ks"])
        for k, kind, detail in r:
            if kind == "HARNESS":
                harness.append(f"{c['cls']}: {detail}")
                continue
            parts = kind.split("|")
            k0 = parts[0]
            if k0.endswith("-changes-with-unit"):
                k0 = "J-mask" if k0.startswith("J-") else "field"
            cell = parts[1] if len(parts) > 1 else "-"
            viols.append({"key": f"C12|{c['cls']}|{decade_bucket(k)}|{cell}|{k0}",
                          "what": f"{c['cls']} regime {c['regime']} scale 1e{k}: {kind}: {detail}",
                          "case": {"cls": c["cls"], "regime": c["regime"],
                                   # a deviation from the neighbouring decade is replayed with the chain of decades leading to it
                                   "ks": [k] if "vs-neighbour" not in kind else [q for q in c["ks"] if q * k > 0 and abs(q) <= abs(k)],
                                   "mags": c["mags"], "maxcells": c["maxcells"],
                                   "pose": c.get("pose", 0), "seeds": c.get("seeds", [0]), "pose_by_ops": c.get("pose_by_ops", False)},
                          "observed": [k, kind, detail]})
    cov = {
        "evaluations": n * 5, "distinct_nontrivial": n,
        "rule": "one evaluation = one vectorised field call at one scale / excitation magnitude over all observer cells of a "
                "(class, regime); distinct non-trivial = (class, regime, decade != 0)",
        "samples": [cases[0], cases[len(cases) // 2], cases[-1]],
        "exhaustive": True, "decades": ks, "surface_lattice_cases": len(scases), "surface_scale_exponents_base2": list(SURF_EXPONENTS), "classes": CLASSES, "excitation_magnitudes": [1e-12, 1.0, 1e12],
    }
    return {"coverage": cov, "violations": viols, "harness_errors": harness[:5],
            "assumptions": ["cells are those of C01 (seed set 0); tolerance 1e-7 (1e-5 next to edge extension lines) relative to "
                            "max(|X|, 1e-3 max|X| over the cell set)"]}


def replay(case):
    r = work(case)
    return {"violated": bool(r), "observed": [list(x) for x in r][:6]}
