"""C13 - a body gives the same field however it is represented or subdivided.

(a) explicit-state BFS over CUT operations: a state is a multiset of parts with the same
polarization (Cuboid boxes; cylinder sectors/rings/slabs as CylinderSegments in several angle
conventions; tetrahedra by edge splitting); after every cut the sum over parts must equal the whole
for B and H at observers inside one part / outside all / far, for 3 polarizations and 3 poses.
(b) cross-representation menu: Cuboid = mesh = tetrahedra = closed Triangle set (H), Cylinder =
full-angle CylinderSegment in shifted angle ranges = hollow difference, Sphere = Dipole outside,
N-gon Polyline -> Circle with error ~ 1/N^2, TriangularMesh converters preserve the field.
"""
import itertools

import numpy as np

from mc import common

LEVEL = "model_checking"
RTOL = 1e-8
POLS = [(0.2, -0.3, 0.9), (1.0, 0.0, 0.0), (0.0, 0.6, 0.5)]
POSES = [((0.0, 0.0, 0.0), (0.0, 0.0, 0.0)), ((0.3, -0.2, 0.5), (0.4, -0.3, 0.8)), ((-1.0, 2.0, 0.1), (0.0, 0.0, 2.2))]
FRACS = [0.3, 0.5, 0.8]
DIM = (1.0, 1.3, 0.7)
OBS = np.array([(0.0131, 0.0273, 0.0411), (0.2171, -0.3313, 0.1237), (-0.4417, 0.5911, -0.3129), (0.3719, 0.4123, 0.2917),
                (0.6731, 0.1177, 0.0913), (-0.1313, -0.9171, 0.2119), (0.0717, 0.1913, -0.5117), (1.7311, 0.9173, -0.6119),
                (-2.1317, 1.4191, 2.7113), (31.17, -17.31, 23.71)])


def placed(objs, pose):
    import magpylib as magpy
    from scipy.spatial.transform import Rotation as R

    c = magpy.Collection(*[o.copy() for o in objs])
    c.rotate(R.from_rotvec(pose[1]), anchor=0)
    c.move(pose[0])
    return c


def field_of(objs, pose, f):
    from scipy.spatial.transform import Rotation as R

    c = placed(objs, pose)
    obs = R.from_rotvec(pose[1]).apply(OBS) + np.array(pose[0])
    return np.asarray(getattr(c, "get" + f)(obs))


# ------------------------------------------------------------------ cuboid cuts
def boxes_to_objs(boxes, pol, as_mesh=False):
    import magpylib as magpy

    out = []
    for (x0, x1, y0, y1, z0, z1) in boxes:
        dim = (x1 - x0, y1 - y0, z1 - z0)
        pos = ((x0 + x1) / 2, (y0 + y1) / 2, (z0 + z1) / 2)
        if as_mesh:
            pts = [(x, y, z) for x in (x0, x1) for y in (y0, y1) for z in (z0, z1)]
            out.append(magpy.magnet.TriangularMesh.from_ConvexHull(points=pts, polarization=pol))
        else:
            out.append(magpy.magnet.Cuboid(dimension=dim, polarization=pol, position=pos))
    return out


def cut_box(b, axis, frac):
    lo, hi = b[2 * axis], b[2 * axis + 1]
    m = lo + frac * (hi - lo)
    b1, b2 = list(b), list(b)
    b1[2 * axis + 1] = m
    b2[2 * axis] = m
    return tuple(b1), tuple(b2)


def cuboid_states(depth):
    a, b, c = DIM
    root = ((-a / 2, a / 2, -b / 2, b / 2, -c / 2, c / 2),)
    level = {root: ()}
    seen = dict(level)
    per_depth = []
    for d in range(depth):
        nxt = {}
        for st, hist in level.items():
            for i, box in enumerate(st):
                for ax in range(3):
                    for fr in FRACS:
                        b1, b2 = cut_box(box, ax, fr)
                        new = tuple(sorted(st[:i] + st[i + 1:] + (b1, b2)))
                        if new not in seen:
                            seen[new] = nxt[new] = hist + ((i, ax, fr),)
        per_depth.append(len(nxt))
        level = nxt
    return seen, per_depth


_WHOLE = {}


def whole_field(kind, pol_i, pose_i, f):
    import magpylib as magpy

    key = (kind, pol_i, pose_i, f)
    if key not in _WHOLE:
        if kind == "cuboid":
            o = magpy.magnet.Cuboid(dimension=DIM, polarization=POLS[pol_i])
        elif kind == "cylinder":
            o = magpy.magnet.Cylinder(dimension=(2 * CYL[1], CYL[2]), polarization=POLS[pol_i])
        elif kind == "tetra":
            o = magpy.magnet.Tetrahedron(vertices=TET, polarization=POLS[pol_i])
        _WHOLE[key] = field_of([o], POSES[pose_i], f)
    return _WHOLE[key]


def compare(got, ref, pol):
    sc = max(np.max(np.linalg.norm(ref, axis=1)), np.linalg.norm(pol))
    err = np.max(np.linalg.norm(got - ref, axis=1)) / sc
    return None if err <= RTOL else f"sum of parts differs from the whole: rel {err:.3g} (worst observer {int(np.argmax(np.linalg.norm(got - ref, axis=1)))})"


def check_cuboid_state(task):
    st, hist, as_mesh, combos = task
    probs = []
    for pi, po, f in combos:
        objs = boxes_to_objs(st, POLS[pi], as_mesh)
        got = field_of(objs, POSES[po], f)
        ref = whole_field("cuboid", pi, po, f if not (as_mesh and f == "B") else "B")
        r = compare(got, ref, POLS[pi])
        if r:
            probs.append((f, r))
    return probs


# ------------------------------------------------------------------ cylinder cuts
CYL = (0.0, 0.6, 1.1)  # r1, r2, h of the whole (a full cylinder)


def seg_objs(parts, pol, conv):
    """parts: tuples (r1, r2, z0, z1, p1, p2) in degrees; conv shifts the angle range by a multiple of 360"""
    import magpylib as magpy

    out = []
    for (r1, r2, z0, z1, p1, p2) in parts:
        sh = {"pos": 0, "neg": -360, "mixed": -360 if p1 >= 180 else 0}[conv]
        q1, q2 = p1 + sh, p2 + sh
        out.append(magpy.magnet.CylinderSegment(dimension=(r1, r2, z1 - z0, q1, q2), polarization=pol, position=(0, 0, (z0 + z1) / 2)))
    return out


def cut_seg(p, kind, val):
    r1, r2, z0, z1, p1, p2 = p
    if kind == "ang":
        m = p1 + val * (p2 - p1)
        return (r1, r2, z0, z1, p1, m), (r1, r2, z0, z1, m, p2)
    if kind == "rad":
        m = r1 + val * (r2 - r1)
        return (r1, m, z0, z1, p1, p2), (m, r2, z0, z1, p1, p2)
    m = z0 + val * (z1 - z0)
    return (r1, r2, z0, m, p1, p2), (r1, r2, m, z1, p1, p2)


CUTS = [("ang", 0.25), ("ang", 200.0 / 360.0), ("rad", 0.4), ("rad", 0.7), ("ax", 0.3), ("ax", 0.6)]


def cylinder_states(depth):
    root = ((CYL[0], CYL[1], -CYL[2] / 2, CYL[2] / 2, 0.0, 360.0),)
    level = {root: ()}
    seen = dict(level)
    per_depth = []
    for d in range(depth):
        nxt = {}
        for st, hist in level.items():
            for i, part in enumerate(st):
                for kind, val in CUTS:
                    a, b = cut_seg(part, kind, val)
                    new = tuple(sorted(st[:i] + st[i + 1:] + (a, b)))
                    if new not in seen:
                        seen[new] = nxt[new] = hist + ((i, kind, val),)
        per_depth.append(len(nxt))
        level = nxt
    return seen, per_depth


def check_cyl_state(task):
    st, hist, conv, combos = task
    probs = []
    for pi, po, f in combos:
        got = field_of(seg_objs(st, POLS[pi], conv), POSES[po], f)
        r = compare(got, whole_field("cylinder", pi, po, f), POLS[pi])
        if r:
            probs.append((f, r))
    return probs


# ------------------------------------------------------------------ tetrahedron cuts
TET = [(-0.5, -0.4, -0.3), (0.9, -0.3, -0.4), (-0.2, 0.8, -0.3), (0.1, 0.0, 0.9)]


def tet_states(depth):
    root = (tuple(map(tuple, TET)),)
    level = {root: ()}
    seen = dict(level)
    for d in range(depth):
        nxt = {}
        for st, hist in level.items():
            for i, tet in enumerate(st):
                for (a, b) in itertools.combinations(range(4), 2):
                    for fr in (0.4, 0.5):
                        m = tuple(np.array(tet[a]) + fr * (np.array(tet[b]) - np.array(tet[a])))
                        t1 = list(tet)
                        t1[b] = m
                        t2 = list(tet)
                        t2[a] = m
                        new = tuple(sorted(st[:i] + st[i + 1:] + (tuple(t1), tuple(t2))))
                        if new not in seen:
                            seen[new] = nxt[new] = hist + ((i, a, b, fr),)
        level = nxt
    return seen


def check_tet_state(task):
    import magpylib as magpy

    st, hist, combos = task
    probs = []
    for pi, po, f in combos:
        objs = [magpy.magnet.Tetrahedron(vertices=np.array(t), polarization=POLS[pi]) for t in st]
        got = field_of(objs, POSES[po], f)
        r = compare(got, whole_field("tetra", pi, po, f), POLS[pi])
        if r:
            probs.append((f, r))
    return probs


# ------------------------------------------------------------------ cross-representation menu
def menu_case(name):
    import magpylib as magpy

    pol = POLS[0]
    a, b, c = DIM
    cub = magpy.magnet.Cuboid(dimension=DIM, polarization=pol)
    corners = np.array([(x, y, z) for x in (-a / 2, a / 2) for y in (-b / 2, b / 2) for z in (-c / 2, c / 2)])
    cube_faces = np.array([(0, 1, 3), (0, 3, 2), (4, 6, 7), (4, 7, 5), (0, 4, 5), (0, 5, 1), (2, 3, 7), (2, 7, 6), (0, 2, 6), (0, 6, 4),
                           (1, 5, 7), (1, 7, 3)])
    out = []

    def cmp(objs, ref_objs, f, tol=RTOL, obs_sel=slice(None)):
        got = field_of(objs, POSES[1], f)[obs_sel]
        ref = field_of(ref_objs, POSES[1], f)[obs_sel]
        sc = max(np.max(np.linalg.norm(ref, axis=1)), 1e-300)
        err = np.max(np.linalg.norm(got - ref, axis=1)) / sc
        return None if err <= tol else f"rel {err:.3g}"

    outside = [i for i in range(len(OBS)) if np.any(np.abs(OBS[i]) > np.array(DIM) / 2)]
    if name.startswith("cuboid=mesh:lattice"):
        # observers at simple rational fractions of the body size (scan grids aligned with the body, unrotated): the inside
        # decision of the mesh must not have exceptional points there
        dim = np.array((1.0, 1.0, 1.0)) if name.endswith("unit") else np.array(DIM)
        g = np.linspace(-0.45, 0.45, 19)
        lat = np.array([(x, y, z) for x in g for y in g for z in g]) * dim
        cu = magpy.magnet.Cuboid(dimension=dim, polarization=pol)
        cn = corners / np.array(DIM) * dim
        res = []
        for tag, m in (("faces", magpy.magnet.TriangularMesh(vertices=cn, faces=cube_faces, polarization=pol)),
                       ("hull", magpy.magnet.TriangularMesh.from_ConvexHull(points=cn, polarization=pol))):
            for f in "BJ":
                got, ref = np.asarray(getattr(m, "get" + f)(lat)), np.asarray(getattr(cu, "get" + f)(lat))
                err = np.linalg.norm(got - ref, axis=1) / np.max(np.linalg.norm(ref, axis=1))
                nbad = int(np.sum(~(err <= RTOL)))
                res.append((f"{f}-{tag}", None if nbad == 0 else f"{nbad} of {len(lat)} lattice points differ, e.g. at {lat[int(np.argmax(err))].tolist()} rel {np.max(err):.3g}"))
        return res
    if name == "cuboid=mesh":
        m = magpy.magnet.TriangularMesh(vertices=corners, faces=cube_faces, polarization=pol)
        return [(f, cmp([m], [cub], f)) for f in "BH"]
    if name == "cuboid=convexhull":
        m = magpy.magnet.TriangularMesh.from_ConvexHull(points=corners, polarization=pol)
        return [(f, cmp([m], [cub], f)) for f in "BH"]
    if name in ("cuboid=5tets", "cuboid=6tets"):
        if name == "cuboid=5tets":
            idx = [(0, 3, 5, 6), (0, 1, 3, 5), (0, 2, 3, 6), (0, 4, 5, 6), (3, 5, 6, 7)]
        else:  # Kuhn triangulation along the diagonal 0-7
            idx = [(0, 1, 3, 7), (0, 1, 5, 7), (0, 2, 3, 7), (0, 2, 6, 7), (0, 4, 5, 7), (0, 4, 6, 7)]
        tets = [magpy.magnet.Tetrahedron(vertices=corners[list(t)], polarization=pol) for t in idx]
        return [(f, cmp(tets, [cub], f)) for f in "BH"]
    if name == "cuboid=triangles(H)":
        m = magpy.magnet.TriangularMesh(vertices=corners, faces=cube_faces, polarization=pol)
        tris = [magpy.misc.Triangle(vertices=corners[fc], polarization=pol) for fc in np.array(m.faces)]
        return [("H", cmp(tris, [cub], "H")), ("B-outside", cmp(tris, [cub], "B", obs_sel=outside))]
    if name == "to_TriangleCollection":
        m = magpy.magnet.TriangularMesh(vertices=corners, faces=cube_faces, polarization=pol)
        tc = m.to_TriangleCollection()
        return [("H", cmp([tc], [cub], "H"))]
    if name == "from_triangles":
        m0 = magpy.magnet.TriangularMesh(vertices=corners, faces=cube_faces, polarization=pol)
        tris = [magpy.misc.Triangle(vertices=corners[fc], polarization=pol) for fc in np.array(m0.faces)]
        m = magpy.magnet.TriangularMesh.from_triangles(triangles=tris, polarization=pol)
        m2 = magpy.magnet.TriangularMesh.from_triangles(triangles=tris[::-1], polarization=pol)
        return [(f, cmp([m], [cub], f)) for f in "BH"] + [("B-reversed-list", cmp([m2], [cub], "B"))]
    if name == "from_mesh":
        m0 = magpy.magnet.TriangularMesh(vertices=corners, faces=cube_faces, polarization=pol)
        m = magpy.magnet.TriangularMesh.from_mesh(mesh=m0.mesh, polarization=pol)
        m2 = magpy.magnet.TriangularMesh.from_mesh(mesh=m0.mesh[::-1, [0, 2, 1]], polarization=pol)
        return [(f, cmp([m], [cub], f)) for f in "BH"] + [("B-flipped-input", cmp([m2], [cub], "B"))]
    if name == "repaired-mesh":
        # built without reorientation from partly inward faces, evaluated once, then repaired: every representation follows
        bad_faces = cube_faces.copy()
        bad_faces[[0, 3, 7]] = bad_faces[[0, 3, 7]][:, [0, 2, 1]]
        m = magpy.magnet.TriangularMesh(vertices=corners, faces=bad_faces, polarization=pol, reorient_faces="skip")
        m.getB(OBS)
        _ = m.mesh
        m.reorient_faces(mode="ignore")
        return [(f, cmp([m], [cub], f)) for f in "BH"] + [("H-triangles", cmp([m.to_TriangleCollection()], [cub], "H")),
                                                          ("B-copy", cmp([m.copy()], [cub], "B"))]
    if name.startswith("small-body"):
        # micrometre-sized bodies with coordinates that are not round numbers: converters must not snap vertices to a grid
        sc = {"um": 2.3456789e-6, "mm": 1.23456789e-3}[name.split(":")[1]]
        obs_s = OBS * sc

        def fld(o, f):
            return np.asarray(getattr(o, "get" + f)(obs_s)).reshape(-1, 3)

        cs = magpy.magnet.Cuboid(dimension=tuple(np.array(DIM) * sc), polarization=pol)
        m0 = magpy.magnet.TriangularMesh(vertices=corners * sc, faces=cube_faces, polarization=pol)
        tris = [magpy.misc.Triangle(vertices=(corners * sc)[fc], polarization=pol) for fc in np.array(m0.faces)]
        reps = {"from_mesh": magpy.magnet.TriangularMesh.from_mesh(mesh=m0.mesh, polarization=pol),
                "from_triangles": magpy.magnet.TriangularMesh.from_triangles(triangles=tris, polarization=pol),
                "from_triangle_collection": magpy.magnet.TriangularMesh.from_triangles(triangles=m0.to_TriangleCollection(), polarization=pol),
                "from_ConvexHull": magpy.magnet.TriangularMesh.from_ConvexHull(points=corners * sc, polarization=pol)}
        res = []
        for rn, m in reps.items():
            for f in "BH":
                ref = fld(cs, f)
                err = np.max(np.linalg.norm(fld(m, f) - ref, axis=1)) / np.max(np.linalg.norm(ref, axis=1))
                res.append((f"{f}-{rn}", None if err <= RTOL else f"rel {err:.3g}"))
            if not np.array_equal(np.sort(np.asarray(m.vertices), axis=0), np.sort(corners * sc, axis=0)):
                res.append((f"vertices-{rn}", "stored vertices differ from the input coordinates"))
        return res
    if name.startswith("two-boxes=disconnected-mesh"):
        # one TriangularMesh made of two disjoint boxes; variants: face list interleaved, some faces of either part flipped
        b1 = magpy.magnet.Cuboid(dimension=DIM, polarization=pol)
        b2 = magpy.magnet.Cuboid(dimension=(0.6, 0.5, 0.9), polarization=pol, position=(2.1, 0.3, -0.2))
        c2 = np.array([(x, y, z) for x in (-0.3, 0.3) for y in (-0.25, 0.25) for z in (-0.45, 0.45)]) + (2.1, 0.3, -0.2)
        verts = np.concatenate([corners, c2])
        fA, fB = cube_faces.copy(), cube_faces.copy() + 8
        variant = name.split(":")[1]
        if variant == "flipB0":
            fB[0] = fB[0][[0, 2, 1]]
        elif variant == "flipA-all":
            fA = fA[:, [0, 2, 1]]
        elif variant == "flipB-all":
            fB = fB[:, [0, 2, 1]]
        elif variant == "interleaved-flips":
            fA[[1, 5, 8]] = fA[[1, 5, 8]][:, [0, 2, 1]]
            fB[[0, 3]] = fB[[0, 3]][:, [0, 2, 1]]
        faces = np.concatenate([fA, fB])
        if variant == "interleaved-flips":
            faces = np.array([f for pair in zip(fA, fB) for f in pair])
        m = magpy.magnet.TriangularMesh(vertices=verts, faces=faces, polarization=pol, check_disconnected="ignore")
        return [(f, cmp([m], [b1, b2], f)) for f in "BH"]
    if name == "mesh-with-path":
        m = magpy.magnet.TriangularMesh.from_ConvexHull(points=corners, polarization=pol, position=[(0, 0, 0), (0.1, 0.2, 0.3)])
        c2 = magpy.magnet.Cuboid(dimension=DIM, polarization=pol, position=[(0, 0, 0), (0.1, 0.2, 0.3)])
        got, ref = m.getB(OBS), c2.getB(OBS)
        err = np.max(np.abs(got - ref)) / np.max(np.abs(ref))
        return [("B", None if err <= RTOL else f"rel {err:.3g}")]
    cyl = magpy.magnet.Cylinder(dimension=(1.2, 1.1), polarization=pol)
    if name.startswith("cylinder=segment"):
        rng = {"cylinder=segment(0,360)": (0, 360), "cylinder=segment(-180,180)": (-180, 180), "cylinder=segment(90,450)": (90, 450),
               "cylinder=segment(-360,0)": (-360, 0), "cylinder=segment(-500,-140)": (-500, -140)}[name]
        s = magpy.magnet.CylinderSegment(dimension=(0, 0.6, 1.1, rng[0], rng[1]), polarization=pol)
        return [(f, cmp([s], [cyl], f)) for f in "BH"]
    if name == "hollow=difference":
        s = magpy.magnet.CylinderSegment(dimension=(0.25, 0.6, 1.1, 0, 360), polarization=pol)
        inner = magpy.magnet.Cylinder(dimension=(0.5, 1.1), polarization=tuple(-np.array(pol)))
        return [(f, cmp([s], [cyl, inner], f)) for f in "BH"]
    if name == "sectors:on-hull-extension":
        # observers exactly on the extension of the lateral surface (r == r0, above / below the body), 14 rows in one call
        bounds = [0, 70, 200, 360]
        segs = [magpy.magnet.CylinderSegment(dimension=(0, 0.6, 1.1, bounds[i], bounds[i + 1]), polarization=pol) for i in range(3)]
        r0 = 0.6
        pts = np.array([(r0 * np.cos(a), r0 * np.sin(a), z) for a in (0.0, np.pi / 2) for z in (0.7, 0.9, 1.3, 2.0, -0.65, -1.1, -3.0)])
        res = []
        for f in "BH":
            ref = np.asarray(getattr(cyl, "get" + f)(pts))
            got = sum(np.asarray(getattr(sg, "get" + f)(pts)) for sg in segs)
            full = np.asarray(getattr(magpy.magnet.CylinderSegment(dimension=(0, 0.6, 1.1, 0, 360), polarization=pol), "get" + f)(pts))
            sc = np.max(np.linalg.norm(got, axis=1))
            for nm, a in (("cylinder", ref), ("full-segment", full)):
                ok = np.all(np.isfinite(a)) and np.max(np.linalg.norm(a - got, axis=1)) <= 1e-6 * sc
                res.append((f"{f}-{nm}", None if ok else f"differs from the sum of three sectors: {a[0].tolist()} vs {got[0].tolist()}"))
        return res
    if name.startswith("sectors:cutplane-vicinity"):
        # observers off the body, 1e-15 ... 1e-11 rad next to the half planes in which the sectors are cut (which are a full turn or
        # half a turn away from section limits such as 360, -360, +-180): the sum of the sectors still is the whole cylinder.
        # Rows where a part is not finite are C15's subject and left out.
        conv = name.split(":")[2]
        bounds = {"quarters": [0, 90, 180, 270, 360], "neg-quarters": [-360, -270, -180, -90, 0], "halves": [-180, 0, 180],
                  "shifted": [90, 180, 270, 360, 450]}[conv]
        segs = [magpy.magnet.CylinderSegment(dimension=(0, 0.6, 1.1, bounds[i], bounds[i + 1]), polarization=pol) for i in range(len(bounds) - 1)]
        pts = []
        for cut in sorted({b % 360 for b in bounds}):
            for d in (1e-15, 3e-15, 1e-14, 1e-13, 3e-13, 1e-12, 1e-11):
                for sgn in (1, -1):
                    ph = np.deg2rad(cut) + sgn * d
                    for r_, z_ in ((0.9, 0.2), (1.7, -0.3), (0.3, 0.9), (0.45, -1.4), (0.6, 0.8)):
                        pts.append((r_ * np.cos(ph), r_ * np.sin(ph), z_))
        pts = np.array(pts)
        res = []
        for f in "BH":
            parts = np.array([np.asarray(getattr(s_, "get" + f)(pts)) for s_ in segs])
            whole = np.asarray(getattr(cyl, "get" + f)(pts))
            fin = np.isfinite(parts).all(axis=(0, 2)) & np.isfinite(whole).all(axis=1)
            err = np.linalg.norm(parts.sum(axis=0)[fin] - whole[fin], axis=1) / np.max(np.linalg.norm(whole[fin], axis=1))
            nbad = int(np.sum(~(err <= 1e-6)))
            res.append((f, None if nbad == 0 and fin.sum() > 0.5 * len(pts) else f"{nbad} of {int(fin.sum())} finite rows differ (max rel {np.max(err) if len(err) else float('nan'):.3g}); {len(pts) - int(fin.sum())} rows not finite"))
        return res
    if name.startswith("sectors"):
        conv = name.split(":")[1]
        bounds = {"pos": [0, 70, 200, 360], "neg": [-360, -290, -160, 0], "mixed": [-270, -200, -90, 90],
                  "far-neg": [-720, -650, -520, -360], "far-pos": [360, 430, 560, 720], "straddle": [250, 330, 420, 610]}[conv]
        segs = [magpy.magnet.CylinderSegment(dimension=(0, 0.6, 1.1, bounds[i], bounds[i + 1]), polarization=pol) for i in range(3)]
        return [(f, cmp(segs, [cyl], f)) for f in "BH"] + [("J", cmp(segs, [cyl], "J"))]
    if name == "sphere=dipole(outside)":
        sp = magpy.magnet.Sphere(diameter=0.5, polarization=pol)
        mom = np.array(pol) * (4 / 3 * np.pi * 0.25 ** 3) / magpy.mu_0
        dp = magpy.misc.Dipole(moment=mom)
        sel = [i for i in range(len(OBS)) if np.linalg.norm(OBS[i]) > 0.26]
        return [(f, cmp([sp], [dp], f, tol=1e-10, obs_sel=sel)) for f in "BH"]
    if name.startswith("ngon->circle"):
        Rr = 0.65 if name == "ngon->circle" else 0.65e-6     # also at micrometre size: tiny segments are segments too
        circ = magpy.current.Circle(diameter=2 * Rr, current=2.0)
        pts = OBS[[1, 3, 7, 8]] * (Rr / 0.65)
        ref = circ.getH(pts)
        errs = []
        for j in range(8):
            N = 8 * 2 ** j
            t = np.linspace(0, 2 * np.pi, N + 1)
            verts = np.array([Rr * np.cos(t), Rr * np.sin(t), 0 * t]).T
            verts[-1] = verts[0]
            pl = magpy.current.Polyline(vertices=verts, current=2.0)
            errs.append(np.max(np.linalg.norm(pl.getH(pts) - ref, axis=1)) / np.max(np.linalg.norm(ref, axis=1)) * N * N)
        ok = all(abs(e - errs[0]) < 0.5 * errs[0] for e in errs) and errs[0] < 50
        mono = all(errs[i + 1] / (4.0 ** 0) <= errs[i] * 1.2 for i in range(len(errs) - 1))
        return [("H", None if ok and mono else f"err*N^2 not constant: {['%.3g' % e for e in errs]}")]
    raise AssertionError(name)


MENU = ["repaired-mesh", "small-body:um", "small-body:mm", "cuboid=mesh", "cuboid=mesh:lattice-unit", "cuboid=mesh:lattice-box", "cuboid=convexhull", "cuboid=5tets", "cuboid=6tets", "cuboid=triangles(H)", "to_TriangleCollection",
        "from_triangles", "from_mesh", "mesh-with-path", "two-boxes=disconnected-mesh:plain", "two-boxes=disconnected-mesh:flipB0",
        "two-boxes=disconnected-mesh:flipA-all", "two-boxes=disconnected-mesh:flipB-all", "two-boxes=disconnected-mesh:interleaved-flips", "cylinder=segment(0,360)", "cylinder=segment(-180,180)",
        "cylinder=segment(90,450)", "cylinder=segment(-360,0)", "cylinder=segment(-500,-140)", "hollow=difference", "sectors:pos",
        "sectors:neg", "sectors:mixed", "sectors:far-neg", "sectors:far-pos", "sectors:straddle", "sectors:on-hull-extension", "sectors:cutplane-vicinity:quarters", "sectors:cutplane-vicinity:neg-quarters", "sectors:cutplane-vicinity:halves",
        "sectors:cutplane-vicinity:shifted", "sphere=dipole(outside)", "ngon->circle", "ngon->circle:um"]


def work(task):
    try:
        kind = task[0]
        if kind == "cub":
            return check_cuboid_state(task[1:])
        if kind == "cyl":
            return check_cyl_state(task[1:])
        if kind == "tet":
            return check_tet_state(task[1:])
        return [(f, r) for f, r in menu_case(task[1]) if r]
    except Exception as e:
        import traceback

        return [("HARNESS", f"{type(e).__name__}: {e} {traceback.format_exc()[-300:]}")]


def run(tier, seed):
    full = [(pi, po, f) for pi in range(3) for po in range(3) for f in "BH"]
    light = [(0, 1, "B"), (1, 2, "H"), (2, 0, "B")]
    depth = 2 if tier == "quick" else 3
    tasks = []
    cs, cub_per = cuboid_states(depth)
    for st, hist in cs.items():
        tasks.append(("cub", st, hist, False, full if len(hist) <= 1 else light))
        if len(hist) <= (1 if tier == "quick" else 2):
            tasks.append(("cub", st, hist, True, light))
    ys, cyl_per = cylinder_states(2 if tier == "quick" else 3)
    for st, hist in ys.items():
        for conv in ("pos", "neg", "mixed"):
            if len(hist) == 3 and conv != "mixed":
                continue
            tasks.append(("cyl", st, hist, conv, full if len(hist) <= 1 else light))
    ts = tet_states(1 if tier == "quick" else 2)
    for st, hist in ts.items():
        tasks.append(("tet", st, hist, full if len(hist) <= 1 else light))
    for name in MENU:
        tasks.append(("menu", name))
    res = common.pmap(work, tasks)
    viols, harness = [], []
    ntrans = 0
    for t, r in zip(tasks, res):
        ntrans += 1
        for f, msg in r:
            if f == "HARNESS":
                harness.append(f"{t[0]} {t[1] if t[0] == 'menu' else t[2]}: {msg}")
                continue
            if t[0] == "menu":
                key = f"C13|menu|{t[1]}|{f}"
                case = {"task": ["menu", t[1]]}
            else:
                cuts = "+".join(sorted({str(h[1]) for h in t[2]})) or "none"
                key = f"C13|{t[0]}|cuts={cuts}|{'mesh' if (t[0] == 'cub' and t[3]) else (t[3] if t[0] == 'cyl' else 'native')}|{f}"
                case = {"task": [t[0], [list(p) for p in t[1]], [list(h) for h in t[2]]] + ([t[3]] if t[0] != "tet" else [])}
            viols.append({"key": key, "what": f"{t[0]} history={t[2] if t[0] != 'menu' else t[1]}: {f}: {msg}", "case": case, "observed": [f, msg]})
    states = len(cs) + len(ys) + len(ts)
    cov = {
        "states": states, "transitions": ntrans, "traces_validated_against_impl": ntrans,
        "samples": [{"kind": "cuboid", "cuts": [list(h) for h in list(cs.values())[-1]]},
                    {"kind": "cylinder", "cuts": [list(h) for h in list(ys.values())[-1]]}, {"menu": MENU[3]}],
        "exhaustive": True,
        "cuboid_partitions_per_depth": cub_per, "cylinder_partitions_per_depth": cyl_per, "tetra_partitions": len(ts),
        "menu": MENU,
        "rule": "state = multiset of parts reached by cut operations (deduplicated); every state is evaluated as the sum of its parts "
                "on the real classes and compared with the uncut body; angle conventions pos/neg/mixed for cylinder sectors",
    }
    return {"coverage": cov, "violations": viols, "harness_errors": harness[:5],
            "assumptions": ["observers have generic coordinates that lie on no cut plane of the menu (fractions 0.3/0.5/0.8, "
                            "0.4/0.7 radial, 0.3/0.6 axial, 90/200 deg)"]}


def replay(case):
    t = case["task"]
    full = [(pi, po, f) for pi in range(3) for po in range(3) for f in "BH"]
    if t[0] == "menu":
        r = work(("menu", t[1]))
    elif t[0] == "cub":
        r = work(("cub", tuple(tuple(p) for p in t[1]), tuple(tuple(h) for h in t[2]), t[3], full))
    elif t[0] == "cyl":
        r = work(("cyl", tuple(tuple(p) for p in t[1]), tuple(tuple(h) for h in t[2]), t[3], full))
    else:
        r = work(("tet", tuple(tuple(tuple(v) for v in p) for p in t[1]), tuple(tuple(h) for h in t[2]), full))
    return {"violated": bool(r), "observed": [list(x) for x in r][:6]}
