"""C14 - returned fields obey the integral laws of magnetostatics.

Grid explorer: source x closed surface menu (boxes and spheres: inside the body, cutting its
boundary, enclosing it, outside, far; axis-aligned and rotated) and source x closed loop menu (circles
and pentagons linking a current once / twice / not at all, passing through a magnet, lying inside
it). Oracle: flux of B = 0, circulation of H = linked current KNOWN FROM THE CONSTRUCTION. Integrals
by composite Gauss-Legendre panels evaluated through one vectorised getB/getH call per refinement
level; the verdict uses the measured convergence |I_N - I_2N|, so a surface that cuts a body (jump of
the integrand along a curve) gets the tolerance its own convergence supports.
"""
import numpy as np
from numpy.polynomial.legendre import leggauss

from mc import common

LEVEL = "exploration"
FLOOR = {"CylinderSegment": 3e-5, "TriangularMesh": 1e-6, "Tetrahedron": 1e-6, "Cylinder": 1e-6, "TallMesh": 1e-6, "WideMesh": 1e-6, "TwoPartMesh": 1e-6,
         "SegmentBeyond360": 3e-5, "RepairedMesh": 1e-6}
POSE = ((0.3, -0.2, 0.5), (0.4, -0.3, 0.8))


def mk_sources():
    import magpylib as magpy
    from scipy.spatial.transform import Rotation as R

    pol = (0.2, -0.3, 0.9)
    kw = dict(position=POSE[0], orientation=R.from_rotvec(POSE[1]))
    cv = [(x * 0.5, y * 0.6, z * 0.4) for x in (-1, 1) for y in (-1, 1) for z in (-1, 1)]
    cf = [(0, 1, 3), (0, 3, 2), (4, 6, 7), (4, 7, 5), (0, 4, 5), (0, 5, 1), (2, 3, 7), (2, 7, 6), (0, 2, 6), (0, 6, 4), (1, 5, 7), (1, 7, 3)]
    S = {
        "Cuboid": magpy.magnet.Cuboid(dimension=(1.0, 1.2, 0.8), polarization=pol, **kw),
        "Cylinder": magpy.magnet.Cylinder(dimension=(1.0, 1.2), polarization=pol, **kw),
        "CylinderSegment": magpy.magnet.CylinderSegment(dimension=(0.3, 0.9, 1.1, -30, 200), polarization=pol, **kw),
        "Sphere": magpy.magnet.Sphere(diameter=1.1, polarization=pol, **kw),
        "Tetrahedron": magpy.magnet.Tetrahedron(vertices=[(-0.5, -0.4, -0.3), (0.9, -0.3, -0.4), (-0.2, 0.8, -0.3), (0, 0, 0.9)], polarization=pol, **kw),
        "TriangularMesh": magpy.magnet.TriangularMesh(vertices=cv, faces=cf, polarization=pol, **kw),
        "Dipole": magpy.misc.Dipole(moment=(0.3, -0.2, 0.7), **kw),
        "Circle": magpy.current.Circle(diameter=1.3, current=2.5, **kw),
        "PolySquare": magpy.current.Polyline(vertices=[(-0.5, -0.5, 0), (0.5, -0.5, 0), (0.5, 0.5, 0), (-0.5, 0.5, 0), (-0.5, -0.5, 0)], current=1.5, **kw),
        "PolyHexagon": magpy.current.Polyline(vertices=[(0.6, 0, 0.1), (0.3, 0.5, -0.1), (-0.3, 0.5, 0.2), (-0.6, 0, -0.2), (-0.3, -0.5, 0.1),
                                                         (0.3, -0.5, -0.1), (0.6, 0, 0.1)], current=-3.0, **kw),
    }
    # bodies whose three extents are all different and permuted (x < y < z and z < x < y): a mix-up of axes shows
    tv = lambda e: [(x * e[0] / 2, y * e[1] / 2, z * e[2] / 2) for x in (-1, 1) for y in (-1, 1) for z in (-1, 1)]  # noqa: E731
    S["TallMesh"] = magpy.magnet.TriangularMesh(vertices=tv((0.7, 1.0, 3.0)), faces=cf, polarization=(0.3, 0.2, 1.0), **kw)
    S["WideMesh"] = magpy.magnet.TriangularMesh(vertices=tv((1.4, 3.0, 0.8)), faces=cf, polarization=(0.3, 0.2, 1.0), **kw)
    # one mesh made of two disconnected closed parts whose supplied face orientations differ (second part inwards)
    va, vb = np.array(cv), np.array(cv) * 0.8 + (3.0, 0.4, 0.3)
    fb = [(f[0], f[2], f[1]) for f in cf]
    S["TwoPartMesh"] = magpy.magnet.TriangularMesh(vertices=np.concatenate([va, vb]), faces=list(cf) + [tuple(i + 8 for i in f) for f in fb],
                                                   polarization=(0.3, 0.2, 1.0), check_disconnected="ignore", **kw)
    # a body that turns along its path (several observers per call, one flux per step) and a mesh repaired after a first use
    S["TurningCuboid"] = magpy.magnet.Cuboid(dimension=(1.0, 1.2, 0.8), polarization=pol, **kw)
    S["TurningCuboid"].rotate_from_angax([25, 70, 130], (0.3, 1.0, 0.2), anchor=None)
    badf = [tuple(f) if i % 3 else (f[0], f[2], f[1]) for i, f in enumerate(cf)]
    S["RepairedMesh"] = magpy.magnet.TriangularMesh(vertices=cv, faces=badf, polarization=pol, reorient_faces="skip", **kw)
    S["RepairedMesh"].getB((0.1, 0.2, 0.3))
    S["RepairedMesh"].reorient_faces(mode="ignore")
    # a current loop tilting along its path: the test loop links the wire at the first step only
    S["TiltingCircle"] = magpy.current.Circle(diameter=1.3, current=2.5, **kw)
    S["TiltingCircle"].rotate_from_angax([30, 60, 90], (0, 1, 0), anchor=None)
    # section angles beyond 360 deg that straddle it after normalisation
    S["SegmentBeyond360"] = magpy.magnet.CylinderSegment(dimension=(0.3, 0.9, 1.1, 300, 420), polarization=pol, **kw)
    a = magpy.magnet.Cuboid(dimension=(0.5, 0.4, 0.3), polarization=pol, position=(0.8, 0.1, -0.2))
    b = magpy.current.Circle(diameter=0.9, current=2.0, position=(-0.4, 0.3, 0.4))
    S["Collection"] = magpy.Collection(a, b, **kw)
    # several sources of one class in ONE call (grouped evaluation): same vertex / face counts, different excitation / geometry
    sq = [(-0.5, -0.5, 0), (0.5, -0.5, 0), (0.5, 0.5, 0), (-0.5, 0.5, 0), (-0.5, -0.5, 0)]
    S["TwoSquares"] = magpy.Collection(magpy.current.Polyline(vertices=sq, current=1.0),
                                       magpy.current.Polyline(vertices=sq, current=3.0, position=(0.2, 0.1, 1.5)))
    bar = lambda L, x0: [(x0 + x * L, y * 0.5, z * 0.5) for x in (0, 1) for y in (-1, 1) for z in (-1, 1)]  # noqa: E731
    S["TwoMeshes"] = magpy.Collection(magpy.magnet.TriangularMesh.from_ConvexHull(points=bar(2.0, -4.0), polarization=pol),
                                      magpy.magnet.TriangularMesh.from_ConvexHull(points=bar(6.0, 0.0), polarization=(0.5, 0.1, -0.4)))
    return S


GLOBAL_FRAME = ("Collection", "TwoSquares", "TwoMeshes")


SIZE = {"Cuboid": 0.6, "Cylinder": 0.6, "CylinderSegment": 0.9, "Sphere": 0.55, "Tetrahedron": 0.9, "TriangularMesh": 0.6, "Dipole": 0.5,
        "Circle": 0.65, "PolySquare": 0.7, "PolyHexagon": 0.6, "Collection": 1.0, "TwoSquares": 0.7, "TwoMeshes": 1.0,
        "TallMesh": 0.5, "WideMesh": 0.5, "TwoPartMesh": 0.6, "SegmentBeyond360": 0.9, "TurningCuboid": 0.6, "RepairedMesh": 0.6, "TiltingCircle": 0.65}


def to_global(p):
    from scipy.spatial.transform import Rotation as R

    return R.from_rotvec(POSE[1]).apply(np.array(p, float)) + np.array(POSE[0])


# ------------------------------------------------------------------ surfaces
def box_nodes(center, half, rotvec, panels, q):
    """nodes, outward normals and weights of a box surface; composite Gauss-Legendre panels x panels per face, order q"""
    from scipy.spatial.transform import Rotation as R

    X, W = leggauss(q)
    edges = np.linspace(-1, 1, panels + 1)
    t = np.concatenate([(edges[i] + edges[i + 1]) / 2 + (edges[i + 1] - edges[i]) / 2 * X for i in range(panels)])
    w = np.concatenate([(edges[i + 1] - edges[i]) / 2 * W for i in range(panels)])
    U, V = np.meshgrid(t, t, indexing="ij")
    WW = (w[:, None] * w[None, :]).ravel()
    U, V = U.ravel(), V.ravel()
    pts, nrm, wts = [], [], []
    h = np.array(half, float)
    for ax in range(3):
        for sgn in (1, -1):
            o = [0, 1, 2]
            o.remove(ax)
            P = np.zeros((len(U), 3))
            P[:, ax] = sgn * h[ax]
            P[:, o[0]] = U * h[o[0]]
            P[:, o[1]] = V * h[o[1]]
            n = np.zeros(3)
            n[ax] = sgn
            pts.append(P)
            nrm.append(np.tile(n, (len(U), 1)))
            wts.append(WW * h[o[0]] * h[o[1]])
    Rm = R.from_rotvec(rotvec)
    return Rm.apply(np.concatenate(pts)) + np.array(center), Rm.apply(np.concatenate(nrm)), np.concatenate(wts)


def sphere_nodes(center, radius, panels, q):
    X, W = leggauss(q * panels)
    nphi = 2 * q * panels
    ph = (np.arange(nphi) + 0.5) * 2 * np.pi / nphi
    ct, PH = np.meshgrid(X, ph, indexing="ij")
    st = np.sqrt(1 - ct ** 2)
    n = np.stack([st * np.cos(PH), st * np.sin(PH), ct], -1).reshape(-1, 3)
    w = (W[:, None] * np.full(nphi, 2 * np.pi / nphi)[None, :]).ravel() * radius ** 2
    return np.array(center) + radius * n, n, w


def flux_case(c):
    S = mk_sources()
    src = S[c["src"]]
    size = SIZE[c["src"]]
    center = to_global(np.array(c["center"]) * size) if c["src"] not in GLOBAL_FRAME else np.array(c["center"]) * size + np.array(c.get("offset", (0, 0, 0)))
    r = c["size"] * size
    vals = []
    Amag = None
    for panels in c["panels"]:
        if c["shape"] == "sphere":
            P, N, W = sphere_nodes(center, r, panels, 8)
        else:
            P, N, W = box_nodes(center, np.array(c["aspect"]) * r, c["rot"], panels, 8)
        with common.time_limit(600):
            # in slices: mesh / segment sources allocate many temporaries per (observer, face) row
            parts = [np.asarray(src.getB(P[i:i + 40000])) for i in range(0, len(P), 40000)]
        # sources with a path: one flux per path step (all must vanish); static sources have one step
        parts = [q.reshape(-1, q.shape[-2], 3) if q.ndim == 3 else q.reshape(1, -1, 3) for q in parts]
        B = np.concatenate(parts, axis=1)          # (steps, n, 3)
        if not np.all(np.isfinite(B)):
            return ("nonfinite", f"{int((~np.isfinite(B).all(-1)).sum())} non-finite integrand values", None)
        vals.append(np.sum(np.einsum("sij,ij->si", B, N) * W, axis=1))
        Amag = float(np.max(np.sum(np.linalg.norm(B, axis=2) * W, axis=1)))
    worst = int(np.argmax(np.abs(vals[-1])))
    step_conv = float(np.max(np.abs(vals[-1] - vals[-2])))
    vals = [float(v[worst]) for v in vals]
    flux = vals[-1]
    conv = max(abs(vals[-1] - vals[-2]), step_conv)
    floor = FLOOR.get(c["src"], 1e-9)
    quad = 10 * conv
    if c["cuts"]:
        # the integrand jumps along the curve where the test surface cuts the body: first-order convergence with an
        # erratic sign, so |I_N - I_2N| alone can underestimate the error. A-priori term: node spacing / edge length.
        quad += Amag / (c["panels"][-1] * 8)
    bound = quad + floor * Amag
    limit = 1e-2 * Amag if c["cuts"] else 1e-6 * Amag
    if quad > limit:
        return ("inconclusive", f"convergence {conv / Amag:.3g} of the integrated |B|", (flux, conv, Amag))
    if abs(flux) > bound:
        return ("flux-not-zero", f"flux/|B|-integral = {flux / Amag:.3g}, bound {bound / Amag:.3g} (levels {vals})", (flux, conv, Amag))
    return ("ok", None, (flux, conv, Amag))


# ------------------------------------------------------------------ loops
def inside_local(src, P):
    """exact inside predicate of the body of source `src` in its LOCAL frame (None for sources without a body)"""
    from mc.oracles import geometry as geo

    box = {"Cuboid": (0.5, 0.6, 0.4), "TriangularMesh": (0.5, 0.6, 0.4), "RepairedMesh": (0.5, 0.6, 0.4), "TallMesh": (0.35, 0.5, 1.5), "WideMesh": (0.7, 1.5, 0.4)}
    if src in box:
        return np.all(np.abs(P) < np.array(box[src]), axis=1)
    par = {"Cylinder": {"dimension": (1.0, 1.2)}, "CylinderSegment": {"dimension": (0.3, 0.9, 1.1, -30, 200)}, "Sphere": {"diameter": 1.1},
           "Tetrahedron": {"vertices": [(-0.5, -0.4, -0.3), (0.9, -0.3, -0.4), (-0.2, 0.8, -0.3), (0, 0, 0.9)]}}.get(src)
    if par is None:
        return None
    return geo.classify(src, par, P) == 1


def surface_crossings(src, curve, t0, t1, samples=4000):
    """parameters in (t0, t1) where the curve t -> global point crosses the surface of the body (sign changes of the
    inside predicate located by bisection); the integrand jumps there, so they become panel edges"""
    from scipy.spatial.transform import Rotation as R

    Rm = R.from_rotvec(POSE[1])
    to_local = lambda P: Rm.inv().apply(np.atleast_2d(P) - np.array(POSE[0]))  # noqa: E731
    ts = np.linspace(t0, t1, samples + 1)
    ins = inside_local(src, to_local(curve(ts)))
    if ins is None:
        return []
    out = []
    for i in np.where(ins[1:] != ins[:-1])[0]:
        a, b, fa = ts[i], ts[i + 1], ins[i]
        for _ in range(60):
            m = 0.5 * (a + b)
            if inside_local(src, to_local(curve(np.array([m]))))[0] == fa:
                a = m
            else:
                b = m
        out.append(0.5 * (a + b))
    return out


def loop_points(c, S):
    """returns list of smooth pieces [(P(n,3), T(n,3) tangents*dt weights)], expected linked current"""
    size = SIZE[c["src"]]
    kind = c["loop"]
    X, W = leggauss(c["q"])
    from scipy.spatial.transform import Rotation as R

    def circle(center, normal, radius, turns=1, pieces=8):
        n = np.array(normal, float)
        n /= np.linalg.norm(n)
        e1 = np.cross(n, (0.31, 0.55, 0.77))
        e1 /= np.linalg.norm(e1)
        e2 = np.cross(n, e1)
        out = []
        edges = np.linspace(0, 2 * np.pi * turns, pieces * turns * c["panels"] + 1)
        if c["src"] not in GLOBAL_FRAME:
            curve = lambda t: np.array(center) + radius * (np.outer(np.cos(t), e1) + np.outer(np.sin(t), e2))  # noqa: E731
            edges = np.array(sorted(set(edges.tolist()) | set(surface_crossings(c["src"], curve, 0.0, 2 * np.pi * turns))))
        for a, b in zip(edges[:-1], edges[1:]):
            t = (a + b) / 2 + (b - a) / 2 * X
            P = np.array(center) + radius * (np.outer(np.cos(t), e1) + np.outer(np.sin(t), e2))
            T = radius * (np.outer(-np.sin(t), e1) + np.outer(np.cos(t), e2)) * ((b - a) / 2 * W)[:, None]
            out.append((P, T))
        return out

    def polygon(verts):
        out = []
        for a, b in zip(verts, np.roll(verts, -1, axis=0)):
            edges = np.linspace(0, 1, c["panels"] + 1)
            if c["src"] not in GLOBAL_FRAME:
                curve = lambda t, a=a, b=b: a + np.outer(t, b - a)  # noqa: E731
                edges = np.array(sorted(set(edges.tolist()) | set(surface_crossings(c["src"], curve, 0.0, 1.0))))
            for u0, u1 in zip(edges[:-1], edges[1:]):
                t = (u0 + u1) / 2 + (u1 - u0) / 2 * X
                P = a + np.outer(t, b - a)
                T = np.outer((u1 - u0) / 2 * W, b - a)
                out.append((P, T))
        return out

    local_to_global = lambda p: to_global(p)  # noqa: E731
    Rm = R.from_rotvec(POSE[1])
    I = {"Circle": 2.5, "PolySquare": 1.5, "PolyHexagon": -3.0, "TiltingCircle": 2.5}.get(c["src"], 0.0)
    if kind == "link1" or kind == "link2":
        # circle around one point of the wire, in the plane perpendicular to the wire there
        if c["src"] == "TiltingCircle":   # tilts about its local y axis: the wire leaves the test loop after the first step
            turns = 1 if kind == "link1" else 2
            pcs = circle(local_to_global(np.array((0.65, 0, 0))), Rm.apply(np.array((0, 1.0, 0))), c["radius"] * size, turns=turns)
            return pcs, np.array([I * turns, 0.0, 0.0, 0.0])
        if c["src"] == "Circle":
            p, tang = np.array((0.65, 0, 0)), np.array((0, 1.0, 0))
        elif c["src"] == "PolySquare":
            p, tang = np.array((0.0, -0.5, 0)), np.array((1.0, 0, 0))
        elif c["src"] == "PolyHexagon":
            a, b = np.array((0.6, 0, 0.1)), np.array((0.3, 0.5, -0.1))
            p, tang = (a + b) / 2, (b - a)
        elif c["src"] == "TwoSquares":  # around one wire of the 1 A loop
            turns = 1 if kind == "link1" else 2
            return circle(np.array((0.0, -0.5, 0.0)), (1.0, 0, 0), c["radius"] * size, turns=turns), 1.0 * turns
        elif c["src"] == "Collection":  # children keep their own global poses
            I = 2.0
            turns = 1 if kind == "link1" else 2
            return circle(np.array((-0.4 + 0.45, 0.3, 0.4)), (0, 1.0, 0), c["radius"] * size, turns=turns), I * turns
        turns = 1 if kind == "link1" else 2
        pcs = circle(local_to_global(p), Rm.apply(tang), c["radius"] * size, turns=turns)
        # orientation: the circle runs e1 -> e2 with e2 = n x e1, i.e. right-handed about n = tangent
        return pcs, I * turns
    if kind == "nolink":
        return circle(local_to_global(np.array((2.2, 1.7, 0.9)) * size), (0.2, 0.5, 0.8), c["radius"] * size), 0.0
    if kind == "through":  # passes through the body / through the loop plane without encircling a conductor
        return circle(local_to_global(np.array((0.55, 0.1, 0.05)) * size), (0.3, 0.9, 0.2), c["radius"] * size), 0.0
    if kind == "inside":
        return circle(local_to_global(np.array((0.05, 0.03, 0.02)) * size), (0.5, 0.3, 0.8), c["radius"] * size), 0.0
    if kind == "pentagon":
        ang = np.linspace(0, 2 * np.pi, 6)[:-1] + 0.3
        verts = np.array([(np.cos(a) * 1.9 * (1 + 0.2 * (i % 2)), np.sin(a) * 1.6, 0.3 * np.sin(3 * a)) for i, a in enumerate(ang)]) * size
        return polygon(local_to_global(verts)), 0.0 if c["src"] not in ("Circle",) else 0.0
    raise AssertionError(kind)


def circ_case(c):
    S = mk_sources()
    src = S[c["src"]]
    vals = []
    Amag = None
    for panels in c["panel_levels"]:
        cc = dict(c, panels=panels)
        pieces, expected = loop_points(cc, S)
        P = np.concatenate([p for p, _ in pieces])
        T = np.concatenate([t for _, t in pieces])
        with common.time_limit(300):
            H = np.asarray(src.getH(P))
        H = H.reshape(-1, H.shape[-2], 3) if H.ndim == 3 else H.reshape(1, -1, 3)     # (path steps, n, 3)
        if not np.all(np.isfinite(H)):
            return ("nonfinite", "non-finite integrand", None)
        vals.append(np.sum(np.einsum("sij,ij->si", H, T), axis=1))
        Amag = float(np.max(np.sum(np.linalg.norm(H, axis=2) * np.linalg.norm(T, axis=1), axis=1)))
    worst = int(np.argmax(np.abs(vals[-1] - expected)))
    step_conv = float(np.max(np.abs(vals[-1] - vals[-2])))
    vals = [float(v[worst]) for v in vals]
    if np.ndim(expected):
        expected = float(expected[worst])
    circ = vals[-1]
    conv = max(abs(vals[-1] - vals[-2]), step_conv)
    floor = FLOOR.get(c["src"], 1e-9)
    bound = 10 * conv + floor * Amag
    limit = 1e-6 * Amag   # loops are split where they cross the body surface: every piece is smooth
    if 10 * conv > limit:
        return ("inconclusive", f"convergence {conv / Amag:.3g}", (circ, expected, Amag))
    if abs(circ - expected) > bound:
        return ("circulation-wrong", f"circulation {circ:.9g} A, linked current {expected:.9g} A, bound {bound:.3g} (levels {vals})", (circ, expected, Amag))
    return ("ok", None, (circ, expected, Amag))


def work(c):
    try:
        return flux_case(c) if c["part"] == "flux" else circ_case(c)
    except Exception as e:
        import traceback

        return ("HARNESS", f"{type(e).__name__}: {e} {traceback.format_exc()[-300:]}", None)


def enumerate_cases(tier):
    cases = []
    centers0 = {"centre": (0.02, 0.01, -0.015), "on-surface": (0.9, 0.1, 0.05), "outside": (2.5, 1.3, 0.8)}
    for src in SIZE:
        centers = dict(centers0)
        if src == "TallMesh":    # x-face at 0.35: centre on it, low / middle / high along the long axis; and across the top face
            centers = {"centre": (0.02, 0.01, -0.015), "on-surface": (0.7, 0.1, 0.05), "on-surface-high": (0.7, 0.1, 2.0),
                       "on-surface-low": (0.7, -0.2, -2.0), "on-surface-top": (0.1, 0.2, 3.0), "outside": (2.5, 1.3, 4.8)}
        if src == "TwoPartMesh":   # second part: box of half extents (0.4, 0.48, 0.32) centred at (3, 0.4, 0.3)
            centers = {"centre": (0.02, 0.01, -0.015), "on-surface": (0.9, 0.1, 0.05), "centre-B": (5.02, 0.7, 0.5),
                       "on-surface-B": (5.65, 0.7, 0.55), "on-surface-B2": (5.0, 0.7, 1.03), "outside": (2.5, 3.3, 1.8)}
        if src == "SegmentBeyond360":  # the section covers azimuths -60..60 deg; points at +30 and -30 deg, r = 0.6
            centers = {"centre": (0.58, 0.33, 0.02), "on-surface": (0.58, 0.33, 0.62), "on-surface-low": (0.58, -0.33, -0.6),
                       "on-surface-high": (1.0, 0.1, 0.05), "outside": (2.5, 1.3, 0.8)}
        if src == "WideMesh":
            centers = {"centre": (0.02, 0.01, -0.015), "on-surface": (1.4, 0.1, 0.05), "on-surface-high": (0.3, 3.0, 0.1),
                       "on-surface-low": (-1.4, -2.0, 0.1), "on-surface-top": (0.4, 1.9, 0.8), "outside": (3.5, 4.3, 2.8)}
        for cname, cen in centers.items():
            for size in ([0.05, 0.6, 3.0, 100.0] if tier == "thorough" else [0.05, 0.6, 3.0]):
                if cname == "outside" and size >= 3.0:
                    continue
                for shape in ("box", "box-rot", "sphere"):
                    # does the test surface cut the body's boundary?  centre: 0.05 inside, 0.6 cuts, >=3 encloses
                    if cname.startswith("centre"):
                        cuts = size == 0.6
                    elif cname.startswith("on-surface"):
                        cuts = size <= 3.0
                    else:
                        cuts = False
                    if src in ("Dipole", "Circle", "PolySquare", "PolyHexagon", "Collection", "TwoSquares", "TiltingCircle") and cname != "outside" and size < 3.0:
                        continue  # would pass next to the dipole position / a wire
                    if src == "Collection" and cname != "outside" and size == 3.0:
                        cuts = False
                    if src in ("Dipole", "Circle", "PolySquare", "PolyHexagon", "TwoSquares", "TiltingCircle"):
                        cuts = False
                    if src == "TwoMeshes":
                        cuts = cname != "outside"
                    if cuts and tier == "quick" and shape == "box":
                        continue
                    cases.append({"part": "flux", "src": src, "center": list(cen), "cname": cname, "size": size,
                                  "offset": [3.0, 0.0, 0.0] if src == "TwoMeshes" else [0, 0, 0],
                                  "shape": "sphere" if shape == "sphere" else "box", "aspect": [1.0, 0.8, 1.3],
                                  "rot": [0, 0, 0] if shape == "box" else [0.3, 0.5, -0.2], "cuts": cuts,
                                  "panels": [4, 8] if not cuts else ([8, 16] if tier == "quick" else [12, 24])})
    for src in SIZE:
        loops = ["nolink", "pentagon"]
        if src in ("Circle", "PolySquare", "PolyHexagon", "Collection", "TwoSquares", "TiltingCircle"):
            loops += ["link1", "link2"]
        if src not in ("Dipole", "Circle", "PolySquare", "PolyHexagon", "Collection", "TwoSquares", "TwoMeshes", "TurningCuboid", "TiltingCircle"):
            loops += ["through", "inside"]
        for lp in loops:
            for radius in ([0.05, 0.2] if lp in ("link1", "link2", "inside") else [0.3, 0.8] if lp == "through" else [0.7]):
                cases.append({"part": "circ", "src": src, "loop": lp, "radius": radius, "q": 12,
                              "panel_levels": ([2, 4] if lp not in ("through", "pentagon") else [8, 16])})
    return cases


def run(tier, seed):
    cases = enumerate_cases(tier)
    res = common.pmap(work, cases, chunk=1)
    viols, harness = [], []
    ninc = 0
    inc_list = []
    worst = {}
    for c, (kind, detail, nums) in zip(cases, res):
        if kind == "HARNESS":
            harness.append(f"{c}: {detail}")
        elif kind == "inconclusive":
            ninc += 1
            inc_list.append(f"{c['part']}:{c['src']}:{c.get('cname', c.get('loop'))}:{c.get('size', c.get('radius'))}:{c.get('shape', '')}")
        elif kind != "ok":
            if c["part"] == "flux":
                key = f"C14|flux|{c['src']}|{c['cname']}|size={c['size']}|{kind}"
            else:
                key = f"C14|circulation|{c['src']}|{c['loop']}|{kind}"
            viols.append({"key": key, "what": f"{c}: {detail}", "case": c, "observed": [kind, detail]})
        elif nums and c["part"] == "flux":
            worst[c["src"]] = max(worst.get(c["src"], 0.0), abs(nums[0]) / nums[2])
    nflux = sum(1 for c in cases if c["part"] == "flux")
    cov = {
        "evaluations": len(cases) * 2, "distinct_nontrivial": len(cases),
        "rule": "one case = one closed surface or loop around / through / inside / outside one source, integrated at two refinement "
                "levels; all cases distinct by construction",
        "samples": [cases[0], cases[nflux // 2], cases[-1]],
        "exhaustive": True, "flux_cases": nflux, "circulation_cases": len(cases) - nflux, "oracle_inconclusive": ninc, "oracle_inconclusive_cases": inc_list,
        "worst_relative_flux_per_source": {k: float(f"{v:.3g}") for k, v in worst.items()},
    }
    if ninc > 0.2 * len(cases):
        harness.append(f"too many inconclusive integrals: {ninc}")
    return {"coverage": cov, "violations": viols, "harness_errors": harness[:5],
            "assumptions": ["linked currents are known from the construction of the loops (a small circle around one point of the wire in "
                            "the plane perpendicular to it), never computed from the field",
                            "integrals that do not converge to their bound are counted as oracle_inconclusive"]}


def replay(case):
    kind, detail, nums = work(case)
    return {"violated": kind not in ("ok", "inconclusive", "HARNESS"), "observed": [kind, detail]}
