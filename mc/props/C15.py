"""C15 - every finite input yields a finite field in bounded time.

Grid explorer over the EXACT special sets of every class (faces, edges, corners, rim, axis, wedge
apex, cut planes, wire, vertex / edge extension lines, r/r0 = 0.05 and 1, centre) and their nextafter
neighbours at +-{1,2,4,16} ulp in every coordinate, subnormal and 1e-160 offsets, distances up to
1e12 sizes, zero-size / zero-excitation sources accepted by the setters, batch sizes that select the
scalar or the vectorised elliptic routines, every field, identity and generic pose. Verdict: the call
returns within the time limit, has the documented shape, and is finite everywhere except at the
documented singular points (Dipole position; vertices of Triangle-based sources).
"""
import numpy as np

from mc import common

LEVEL = "exploration"
ULPS = [0, 1, -1, 2, -2, 4, -4, 16, -16]
TIME_LIMIT = 10.0
TV = np.array([(-0.5, -0.4, -0.3), (0.9, -0.3, -0.4), (-0.2, 0.8, -0.3), (0.0, 0.0, 0.9)])
TF = [(0, 2, 1), (0, 1, 3), (0, 3, 2), (1, 2, 3)]


def ulp(x, k):
    x = float(x)
    for _ in range(abs(k)):
        x = np.nextafter(x, np.inf if k > 0 else -np.inf)
    return x


def near(x):
    return [ulp(x, k) for k in ULPS]


# ------------------------------------------------------------------ sources and labelled point sets
GEOM = {"Cuboid": (1.0, 1.2, 0.8), "Cuboid-flat": (2.0, 0.1, 1.0), "Cuboid-long": (0.2, 0.2, 3.0), "Cuboid-zero-polarization": (1.0, 1.2, 0.8),
        "Cylinder": (1.0, 1.2), "Cylinder-flat": (2.0, 0.1), "Cylinder-long": (0.3, 3.0), "Cylinder-zero-polarization": (1.0, 1.2),
        "Cylinder-axial": (1.0, 1.2), "Cylinder-diametral": (1.0, 1.2),
        "Cuboid-polx": (1.0, 1.2, 0.8), "Cuboid-poly": (1.0, 1.2, 0.8), "Cuboid-polz": (1.0, 1.2, 0.8), "Cuboid-polxy": (1.0, 1.2, 0.8)}


# cylinders over a grid of diameter : height ratios (rim set only): whether z/r0 and z0/r0 round to the same number for an
# observer 1 ulp off a base plane depends on the ratio
RATIO_D = (1.0, 2.0, 2.2, 3.0, 5.0, 6.0, 10.0)
RATIO_H = (1.0, 1.7, 1.9, 2.0, 3.8, 7.0)
for _d in RATIO_D:
    for _h in RATIO_H:
        GEOM[f"Cylinder-ratio{_d:g}x{_h:g}"] = (_d, _h)


def flat_tetra(k):
    """four coplanar vertices with generic (non-round) coordinates, deterministic in k: p_i = c + a_i u + b_i w"""
    x = (np.modf(np.sin(np.arange(1, 18) * (k + 1) * 12.9898) * 43758.5453)[0] + 1.0) * 0.5 + 0.05
    u, w, c = x[0:3] - 0.5, x[3:6] - 0.4, x[6:9]
    ab = x[9:17].reshape(4, 2) * 2 - 1
    return np.array([c + a * u + b * w for a, b in ab])


N_FLAT = 80
for _k in range(N_FLAT):
    GEOM[f"TetrahedronFlat-g{_k}"] = None


def sources():
    import magpylib as magpy

    pol = (0.2, -0.3, 0.9)
    S = {}
    for _k in range(N_FLAT):   # zero-volume tetrahedra the setter accepts, in generic position
        S[f"TetrahedronFlat-g{_k}"] = lambda _k=_k, **kw: magpy.magnet.Tetrahedron(vertices=flat_tetra(_k), polarization=pol, **kw)
    for nm in GEOM:
        if nm.startswith("Cylinder-ratio"):
            S[nm] = lambda nm=nm, **kw: magpy.magnet.Cylinder(dimension=GEOM[nm], polarization=pol, **kw)
    for nm in ("Cuboid-flat", "Cuboid-long"):
        S[nm] = lambda nm=nm, **kw: magpy.magnet.Cuboid(dimension=GEOM[nm], polarization=pol, **kw)
    for nm in ("Cylinder-flat", "Cylinder-long"):
        S[nm] = lambda nm=nm, **kw: magpy.magnet.Cylinder(dimension=GEOM[nm], polarization=pol, **kw)
    # polarization exactly along one axis / in one coordinate plane: some face charges vanish identically
    for nm, pv in (("Cuboid-polx", (0.7, 0, 0)), ("Cuboid-poly", (0, -0.7, 0)), ("Cuboid-polz", (0, 0, 0.7)), ("Cuboid-polxy", (0.4, 0.6, 0))):
        S[nm] = lambda pv=pv, **kw: magpy.magnet.Cuboid(dimension=(1.0, 1.2, 0.8), polarization=pv, **kw)
    # purely axial / purely diametral polarization: only one of the two cylinder formulas is evaluated
    S["Cylinder-axial"] = lambda **kw: magpy.magnet.Cylinder(dimension=GEOM["Cylinder"], polarization=(0, 0, 0.7), **kw)
    S["Cylinder-diametral"] = lambda **kw: magpy.magnet.Cylinder(dimension=GEOM["Cylinder"], polarization=(0.4, -0.6, 0), **kw)
    S["Cuboid"] = lambda **kw: magpy.magnet.Cuboid(dimension=(1.0, 1.2, 0.8), polarization=pol, **kw)
    S["Cylinder"] = lambda **kw: magpy.magnet.Cylinder(dimension=(1.0, 1.2), polarization=pol, **kw)
    S["CylinderSegment"] = lambda **kw: magpy.magnet.CylinderSegment(dimension=(0.3, 0.9, 1.1, -30, 200), polarization=pol, **kw)
    S["CylinderSegmentWedge"] = lambda **kw: magpy.magnet.CylinderSegment(dimension=(0.0, 0.8, 1.0, 20, 110), polarization=pol, **kw)
    S["CylinderSegmentFull"] = lambda **kw: magpy.magnet.CylinderSegment(dimension=(0.4, 1.0, 0.6, 0, 360), polarization=pol, **kw)
    S["Sphere"] = lambda **kw: magpy.magnet.Sphere(diameter=1.1, polarization=pol, **kw)
    S["Tetrahedron"] = lambda **kw: magpy.magnet.Tetrahedron(vertices=TV, polarization=pol, **kw)
    S["TriangularMesh"] = lambda **kw: magpy.magnet.TriangularMesh(vertices=TV, faces=TF, polarization=pol, **kw)
    S["Triangle"] = lambda **kw: magpy.misc.Triangle(vertices=TV[:3], polarization=pol, **kw)
    S["Circle"] = lambda **kw: magpy.current.Circle(diameter=1.3, current=2.5, **kw)
    S["Polyline"] = lambda **kw: magpy.current.Polyline(vertices=[(0, 0, 0), (1, 1, 0.5), (1, 2, -0.4), (1, 2, -0.4), (0, 0, 0)], current=1.5, **kw)
    S["Dipole"] = lambda **kw: magpy.misc.Dipole(moment=(0.3, -0.2, 0.7), **kw)
    # degenerate sources the setters accept
    S["Sphere-zero-diameter"] = lambda **kw: magpy.magnet.Sphere(diameter=0, polarization=pol, **kw)
    S["Circle-zero-diameter"] = lambda **kw: magpy.current.Circle(diameter=0, current=1, **kw)
    S["Circle-zero-current"] = lambda **kw: magpy.current.Circle(diameter=1.3, current=0, **kw)
    S["Cuboid-zero-polarization"] = lambda **kw: magpy.magnet.Cuboid(dimension=(1.0, 1.2, 0.8), polarization=(0, 0, 0), **kw)
    S["Cylinder-zero-polarization"] = lambda **kw: magpy.magnet.Cylinder(dimension=(1.0, 1.2), polarization=(0, 0, 0), **kw)
    S["Dipole-zero-moment"] = lambda **kw: magpy.misc.Dipole(moment=(0, 0, 0), **kw)
    S["Polyline-zero-current"] = lambda **kw: magpy.current.Polyline(vertices=[(0, 0, 0), (1, 1, 0.5)], current=0, **kw)
    S["Tetrahedron-coplanar"] = lambda **kw: magpy.magnet.Tetrahedron(vertices=[(0, 0, 0), (1, 0, 0), (0, 1, 0), (1, 1, 0)], polarization=pol, **kw)
    return S


def point_sets(name):
    """list of (label, points (n,3), allow_nonfinite) in the local frame"""
    out = []
    tiny = [0.0, 5e-324, -5e-324, 1e-310, 1e-160, -1e-160, 1e-100, 1e-30, -1e-30]
    far = [1e3, 1e6, 1e9, 1e12]
    base = name.split("-")[0].replace("Wedge", "").replace("Full", "")
    if base == "Cuboid":
        a, b, c = (np.array(GEOM[name]) / 2).tolist()
        xs, ys, zs = near(a) + near(-a), near(b) + near(-b), near(c) + near(-c)
        out.append(("corner-lattice", np.array([(x, y, z) for x in xs for y in ys for z in zs]), False))
        out.append(("edge-lattice", np.array([(x, y, z) for x in xs for y in ys for z in (0.0, 0.1, c / 2, 2 * c, -3 * c)]), False))
        out.append(("edge-lattice", np.array([(x, y, z) for x in (0.0, 0.2, 2 * a) for y in ys for z in zs]), False))
        out.append(("edge-lattice", np.array([(x, y, z) for x in xs for y in (0.0, -0.3, 2 * b) for z in zs]), False))
        out.append(("face-lattice", np.array([(x, y, z) for x in xs for y in (0.0, 0.1, -0.3) for z in (0.0, 0.2)]), False))
        ds = [1e-14, 1e-13, 1e-12, 1e-11, 1e-10, 1e-9, 1e-8, 1e-7]
        out.append(("edge-vicinity", np.array([(a + sx * d, b + sy * d, z) for d in ds for sx in (1, -1, 0) for sy in (1, -1, 0)
                                               for z in (0.0, 0.1, -0.3) if (sx, sy) != (0, 0)]), False))
        out.append(("centre-tiny", np.array([(t, u, 0.0) for t in tiny for u in tiny]), False))
        out.append(("far", np.array([(f * a, 0.3 * f, -f) for f in far] + [(f, 0, 0) for f in far] + [(a, b, f) for f in far]), False))
    elif base == "Cylinder":
        r0, z0 = (np.array(GEOM[name]) / 2).tolist()
        rs, zs = near(r0), near(z0) + near(-z0)
        phis = [0.0, 0.7, np.pi / 2, np.pi, -2.1]
        out.append(("rim-lattice", np.array([(r * np.cos(p), r * np.sin(p), z) for r in rs for z in zs for p in phis]), False))
        out.append(("hull-lattice", np.array([(r * np.cos(p), r * np.sin(p), z) for r in rs for z in (0.0, 0.3, 2 * z0) for p in phis]), False))
        out.append(("base-lattice", np.array([(r * np.cos(p), r * np.sin(p), z) for r in (0.0, 0.2, 2 * r0) for z in zs for p in phis]), False))
        out.append(("axis-tiny", np.array([(t, u, z) for t in tiny for u in tiny[:4] for z in (0.0, 0.3, z0, 2.0)]), False))
        sw = near(0.05 * r0) + [0.05 * r0 * (1 + 1e-12), 0.05 * r0 * (1 - 1e-12)]
        out.append(("taylor-switch", np.array([(r, 0.0, z) for r in sw for z in (0.0, 0.3, z0, -2.0, 30.0)]), False))
        out.append(("far", np.array([(f, 0.3 * f, -f) for f in far] + [(0, 0, f) for f in far] + [(f, 0, 0) for f in far] + [(r0, 0, f) for f in far]), False))
    elif base == "CylinderSegment":
        if name == "CylinderSegmentWedge":
            r1, r2, h, p1, p2 = 0.0, 0.8, 1.0, 20.0, 110.0
        elif name == "CylinderSegmentFull":
            r1, r2, h, p1, p2 = 0.4, 1.0, 0.6, 0.0, 360.0
        else:
            r1, r2, h, p1, p2 = 0.3, 0.9, 1.1, -30.0, 200.0
        rr = near(r2) + (near(r1) if r1 > 0 else [0.0, 5e-324, 1e-310, 1e-160, 1e-30, 1e-16])
        zz = near(h / 2) + near(-h / 2)
        pp = [np.deg2rad(x) for x in (near(p1) + near(p2))] + [np.deg2rad(p1) + np.pi, np.deg2rad(p2) - np.pi]
        out.append(("corner-lattice", np.array([(r * np.cos(p), r * np.sin(p), z) for r in rr for p in pp for z in zz]), False))
        out.append(("edge-lattice", np.array([(r * np.cos(p), r * np.sin(p), z) for r in rr for p in pp for z in (0.0, 0.2, 2 * h)]), False))
        out.append(("edge-lattice", np.array([(r * np.cos(p), r * np.sin(p), z) for r in rr for p in (np.deg2rad((p1 + p2) / 2), np.deg2rad(p1) + 0.3) for z in zz]), False))
        out.append(("cutplane-lattice", np.array([(r * np.cos(p), r * np.sin(p), z) for r in ((r1 + r2) / 2, 2 * r2, 0.01) for p in pp for z in zz + [0.0, 0.1]]), False))
        out.append(("axis-tiny", np.array([(t, u, z) for t in tiny for u in tiny[:4] for z in (0.0, 0.3, h / 2, -h / 2, ulp(h / 2, 4), 2.0)]), False))
        out.append(("far", np.array([(f, 0.3 * f, -f) for f in far] + [(0, 0, f) for f in far] + [(f, 0, 0) for f in far]), False))
        # next to the planes of the flat side faces (and their continuation through the axis): angular offsets between one ulp of
        # the angle and 1e-6 rad on either side, at radii / heights on, inside and outside the body
        offs = [s_ * d for d in (1e-15, 1e-14, 1e-13, 1e-12, 1e-11, 1e-10, 1e-9, 1e-8, 1e-7, 1e-6) for s_ in (1, -1)]
        fp = [np.deg2rad(p1), np.deg2rad(p2), np.deg2rad(p1) + np.pi, np.deg2rad(p2) - np.pi]
        rr2 = [r2, (r1 + r2) / 2, 2 * r2, 0.01] + ([r1] if r1 > 0 else [])
        zz2 = [h / 2, -h / 2, 0.0, 0.3 * h, 2 * h, ulp(h / 2, 16)]
        out.append(("sideface-vicinity", np.array([(r * np.cos(p + o), r * np.sin(p + o), z) for p in fp for o in offs for r in rr2 for z in zz2]), False))
    elif base == "Sphere":
        R = 0.55 if name == "Sphere" else 0.0
        dirs = np.array([(1, 0, 0), (0, 1, 0), (0, 0, 1), (-1, 0, 0), (0.3, -0.5, 0.8), (-0.6, 0.6, 0.5)], float)
        dirs /= np.linalg.norm(dirs, axis=1, keepdims=True)
        out.append(("surface-lattice", np.array([d * r for d in dirs for r in near(R)]), False))
        out.append(("centre-tiny", np.array([(t, u, 0.0) for t in tiny for u in tiny]), False))
        out.append(("far", np.array([d * f for d in dirs for f in far]), False))
    elif base == "TetrahedronFlat":
        v = flat_tetra(int(name.split("-g")[1]))
        n = np.cross(v[1] - v[0], v[2] - v[0])
        n /= np.linalg.norm(n)
        c0 = v.mean(axis=0)
        out.append(("off-plane", np.array([c0 + n * h + 0.3 * (v[i] - c0) for h in (0.05, -0.4, 3.0) for i in range(4)] + [c0 + (5.0, -3.0, 2.0)]), False))
    elif base in ("Tetrahedron", "TriangularMesh", "Triangle"):
        v = TV if base != "Triangle" else TV[:3]
        if name == "Tetrahedron-coplanar":
            v = np.array([(0, 0, 0), (1, 0, 0), (0, 1, 0), (1, 1, 0)], float)
        faces = [(0, 1, 2)] if base == "Triangle" else TF
        out.append(("vertices", np.array(v), True))
        pts, ext, plane = [], [], []
        for f in faces:
            a, b, c = v[list(f)]
            n = np.cross(b - a, c - a)
            n = n / (np.linalg.norm(n) or 1.0)
            fc = (a + b + c) / 3
            for k in ULPS:
                pts.append(fc + n * k * 1e-16)
                pts.append((a + b) / 2 + n * k * 1e-16)       # on an edge
                plane.append(fc + 2.0 * (fc - c) + n * k * 1e-16)   # in the face plane, outside the face
            for lam in (1.5, -0.5, 1.0 + 1e-15, 2.0):
                for off in (0.0, 1e-300, 1e-160, 1e-17, 1e-16, 1e-13, 1e-12, 1e-11):
                    ext.append(a + lam * (b - a) + n * off)    # edge extension line and next to it
                    ext.append(a + lam * (b - a) + np.cross(n, b - a) * off)
        out.append(("face-edge-lattice", np.array(pts), False))
        out.append(("edge-extension", np.array(ext), False))
        out.append(("face-plane-outside", np.array(plane), False))
        out.append(("next-to-vertex", np.array([w + d for w in v for d in ((1e-300, 0, 0), (0, 1e-160, 0), (1e-16, 1e-16, 0), (0, 0, -1e-12))]), True))
        out.append(("far", np.array([(f, 0.3 * f, -f) for f in far] + [(0, 0, f) for f in far]), False))
    elif base == "Circle":
        r0 = 0.65 if name != "Circle-zero-diameter" else 0.0
        zs = tiny + [ulp(0.0, 1), 1e-17, 1e-15, -1e-15]
        out.append(("wire-lattice", np.array([(r * np.cos(p), r * np.sin(p), z) for r in near(r0) for z in zs for p in (0.0, 0.7, np.pi)]), "wire"))
        out.append(("axis-tiny", np.array([(t, u, z) for t in tiny for u in tiny[:4] for z in (0.0, 0.3, -2.0)]), r0 == 0.0))
        out.append(("plane", np.array([(r, 0.0, 0.0) for r in (0.1, 0.3, 2 * r0 + 0.1, 30.0)]), False))
        out.append(("far", np.array([(f, 0.3 * f, -f) for f in far] + [(0, 0, f) for f in far] + [(f, 0, 0) for f in far]), False))
    elif base == "Polyline":
        v = np.array([(0, 0, 0), (1, 1, 0.5), (1, 2, -0.4), (0, 0, 0)], float)
        on, extp = [], []
        for a, b in zip(v[:-1], v[1:]):
            d = b - a
            t = np.cross(d, (0.3, 0.5, 0.8))
            t /= np.linalg.norm(t)
            for lam in (0.0, 0.3, 0.5, 1.0):
                for off in (0.0, 5e-324, 1e-310, 1e-160, 1e-30, 1e-16, 1e-15):
                    on.append(a + lam * d + t * off)
            for lam in (-0.5, 1.5, 1 + 1e-15, 30.0):
                for off in (0.0, 5e-324, 1e-160, 1e-16, 1e-12):
                    extp.append(a + lam * d + t * off)
        out.append(("on-wire", np.array(on), "wire"))
        out.append(("extension-line", np.array(extp), False))
        out.append(("far", np.array([(f, 0.3 * f, -f) for f in far] + [(0, 0, f) for f in far]), False))
    elif base == "Dipole":
        out.append(("position", np.array([(0.0, 0.0, 0.0)]), True))
        out.append(("next-to-position", np.array([(t, u, w) for t in tiny[1:] for u in tiny[:3] for w in tiny[:2]]), "overflow"))
        # distances at which the field (~ 1e-7 |m| / r^3) is large but representable: it must be finite
        reps = [1e-20, 1e-40, 1e-60, 1e-64, 1e-66, 1e-70, 1e-80, 1e-90, 1e-98]
        out.append(("representable-near", np.array([(t * a, t * b, t * c) for t in reps for (a, b, c) in ((1, 0, 0), (0, 0, 1), (0.3, -0.5, 0.8), (-1, 1, 1))]), "local-only"))
        out.append(("far", np.array([(f, 0.3 * f, -f) for f in far] + [(0, 0, f) for f in far] + [(1e100, 0, 0), (1e154, 1e154, 0)]), False))
    else:
        raise AssertionError(name)
    return out


def allowed_mask(name, label, allow, pts):
    """True where a non-finite value is the documented / correctly rounded result"""
    n = len(pts)
    if allow is True:
        return np.ones(n, bool)
    if allow == "local-only":   # offsets that vanish when a pose is added: judged in the local frame only
        return np.zeros(n, bool)
    if allow == "overflow":
        # next to a 1/r^3 singularity offsets below 1e-100 overflow legitimately
        return np.linalg.norm(pts, axis=1) <= 1e-100
    if allow == "wire":
        base = name.split("-")[0]
        if base == "Circle":
            r0 = 0.65 if name != "Circle-zero-diameter" else 0.0
            d = np.hypot(np.hypot(pts[:, 0], pts[:, 1]) - r0, pts[:, 2])
            return d <= 1e-100
        return np.zeros(n, bool) | (np.array([True] * n) if False else np.zeros(n, bool))
    return np.zeros(n, bool)


POSES = [((0.0, 0.0, 0.0), (0.0, 0.0, 0.0)), ((0.3, -0.2, 0.5), (0.4, -0.3, 0.8))]


def run_case(c):
    from scipy.spatial.transform import Rotation as R

    name, si, pose_i, field = c["src"], c["set"], c["pose"], c["field"]
    label, pts, allow = point_sets(name)[si]
    pose = POSES[pose_i]
    Rm = R.from_rotvec(pose[1])
    try:
        src = sources()[name](position=pose[0], orientation=Rm)
    except Exception as e:
        return [("construct", f"raised {type(e).__name__}: {e}"[:150])]
    obs = Rm.apply(pts) + np.array(pose[0]) if pose_i else pts
    problems = []
    fn = getattr(src, "get" + field)
    ok_nonfinite = allowed_mask(name, label, allow, pts) if pose_i == 0 else np.ones(len(pts), bool) if allow else np.zeros(len(pts), bool)

    def call(o):
        with common.time_limit(TIME_LIMIT):
            return np.asarray(fn(o))

    # whole batch (vectorised routines), first 9 (scalar routines), first 3 alone
    batches = [("all", np.arange(len(obs)))]
    if len(obs) > 9:
        batches.append(("first9", np.arange(9)))
    batches += [("single", np.array([i])) for i in range(min(3, len(obs)))]
    for bname, idx in batches:
        try:
            out = call(obs[idx] if len(idx) > 1 else obs[idx[0]])
        except common.CaseTimeout:
            # find the culprit rows one by one with a short limit
            hang = []
            for i in idx[:400]:
                try:
                    with common.time_limit(1.0):
                        fn(obs[i])
                except common.CaseTimeout:
                    hang.append(int(i))
                    if len(hang) >= 3:
                        break
                except Exception:
                    pass
            problems.append((f"does-not-terminate|{bname}", f"no result within {TIME_LIMIT}s; rows that hang alone: {[pts[i].tolist() for i in hang]}"))
            continue
        except Exception as e:
            problems.append((f"raised-{type(e).__name__}|{bname}", f"{e}"[:150]))
            continue
        want = (len(idx), 3) if len(idx) > 1 else (3,)
        if out.shape != want:
            problems.append((f"shape|{bname}", f"{out.shape} != {want}"))
            continue
        out = out.reshape(-1, 3)
        bad = ~np.isfinite(out).all(axis=1) & ~ok_nonfinite[idx]
        if bad.any():
            i = int(idx[np.argmax(bad)])
            problems.append((f"nonfinite|{bname if bname != 'single' else 'all'}", f"{int(bad.sum())} of {len(idx)} rows, e.g. local observer {pts[i].tolist()} -> {out[np.argmax(bad)].tolist()}"))
    # deduplicate kinds
    seen, res = set(), []
    for k, d in problems:
        if k not in seen:
            seen.add(k)
            res.append((k, d))
    return res


def work(c):
    try:
        return run_case(c)
    except Exception as e:
        import traceback

        return [("HARNESS", f"{type(e).__name__}: {e} {traceback.format_exc()[-300:]}")]


def run(tier, seed):
    common.bind_repo()
    cases = []
    npts = 0
    for name in sources():
        sets = point_sets(name)
        for si, (label, pts, allow) in enumerate(sets):
            if name.startswith("Cylinder-ratio") and label != "rim-lattice":
                continue
            for pose_i in ((0, 1) if not name.startswith(("Cylinder-ratio", "TetrahedronFlat")) else (0,)):
                for field in ("B", "H", "J", "M") if (tier == "thorough" or pose_i == 0) else ("B",):
                    if field in "JM" and label == "far":
                        continue
                    cases.append({"src": name, "set": si, "pose": pose_i, "field": field, "label": label})
                    npts += len(pts)
    res = common.pmap(work, cases, chunk=1)
    viols, harness = [], []
    for c, r in zip(cases, res):
        for kind, detail in r:
            if kind == "HARNESS":
                harness.append(f"{c}: {detail}")
                continue
            viols.append({"key": f"C15|{c['src']}|{c['label']}|{kind.split('|')[0]}",
                          "what": f"{c['src']} {c['label']} pose={c['pose']} get{c['field']}: {kind}: {detail}",
                          "case": {k: c[k] for k in ("src", "set", "pose", "field")}, "observed": [kind, detail]})
    labels = sorted({(c["src"], c["label"]) for c in cases})
    cov = {
        "evaluations": npts, "distinct_nontrivial": sum(len(p) for n in sources() for _, p, _ in point_sets(n)),
        "rule": "one evaluation = one (observer row, field, pose) inside a vectorised call; distinct non-trivial = distinct special-set "
                "points (each lies exactly on or within 16 ulp / a subnormal offset of a face, edge, corner, rim, axis, apex, cut "
                "plane, wire, extension line, switch value or the centre, or at 1e3..1e12 sizes)",
        "samples": [cases[0], cases[len(cases) // 2], cases[-1]],
        "exhaustive": True, "calls": len(cases), "special_sets": [f"{a}:{b}" for a, b in labels],
        "time_limit_s": TIME_LIMIT, "batch_forms": ["all rows", "first 9 rows", "3 single rows"],
    }
    return {"coverage": cov, "violations": viols, "harness_errors": harness[:5],
            "assumptions": ["non-finite values are accepted only at Dipole position, vertices of Triangle-based sources, and within 1e-100 "
                            "of a 1/r^3 or 1/d singularity (overflow is the correctly rounded result there)"]}


def replay(case):
    c = dict(case)
    c["label"] = point_sets(c["src"])[c["set"]][0]
    r = work(c)
    return {"violated": bool(r), "observed": [list(x) for x in r][:5]}
