"""C16 - TriangularMesh status checks are right and orientation is normalised.

Grid explorer with ground truth by construction: closed meshes with known outward faces
(tetrahedron, cube, triangular prism, octahedron, non-convex L-prism and U-prism) under face
reorderings x ALL flip subsets (where 2^n is affordable) x vertex renumberings; derived meshes: every
deletion of <= 2 faces (open), two disjoint copies with interleaved face lists and flips
(disconnected), interpenetrating bodies in general position incl. one-sided spikes in every group
order (self-intersecting); three scales. After default construction the oriented face set must equal
the known outward set, the flags must equal the truth, and getH outside must equal the canonical
mesh's.
"""
import itertools

import numpy as np

from mc import common

LEVEL = "exploration"


# ------------------------------------------------------------------ ground-truth meshes
def convex_mesh(verts, faces):
    """orient faces outwards using the centroid (valid for convex bodies)"""
    v = np.array(verts, float)
    c = v.mean(axis=0)
    out = []
    for f in faces:
        a, b, d = v[list(f)]
        n = np.cross(b - a, d - a)
        out.append(tuple(f) if np.dot(n, a - c) > 0 else (f[0], f[2], f[1]))
    return v, np.array(out)


def prism_from_polygon(poly, tris, h=1.0):
    """extrude a ccw simple polygon with a given triangulation; returns outward oriented closed mesh"""
    n = len(poly)
    v = [(x, y, 0.0) for x, y in poly] + [(x, y, h) for x, y in poly]
    faces = []
    for a, b, c in tris:
        faces.append((a, c, b))              # bottom: normal -z
        faces.append((a + n, b + n, c + n))  # top: normal +z
    for i in range(n):
        j = (i + 1) % n
        faces.append((i, j, j + n))
        faces.append((i, j + n, i + n))
    return np.array(v, float), np.array(faces)


def frame_mesh(h=0.6):
    """a square ring (box with a rectangular through-hole): closed, connected, genus 1 (V - E + F = 0), outward oriented"""
    ring = lambda r: [(-r, -r), (r, -r), (r, r), (-r, r)]
    v = [(x, y, z) for z in (0.0, h) for r in (1.0, 0.5) for x, y in ring(r)]   # 0-3 outer bottom, 4-7 inner bottom, 8-11, 12-15 top
    v = np.array(v, float) * (1.0, 1.1, 1.0)
    faces = []
    for i in range(4):
        j = (i + 1) % 4
        ob, ib, ot, it = 0, 4, 8, 12
        faces += [(ob + i, ib + j, ob + j), (ob + i, ib + i, ib + j)]            # bottom annulus, normal -z
        faces += [(ot + i, ot + j, it + j), (ot + i, it + j, it + i)]            # top annulus, normal +z
        faces += [(ob + i, ob + j, ot + j), (ob + i, ot + j, ot + i)]            # outer wall, normal outwards
        faces += [(ib + i, it + j, ib + j), (ib + i, it + i, it + j)]            # inner wall, normal into the hole
    f = np.array(faces)
    # make the construction's claim true by construction: orient every face by its known outward direction
    out = []
    for t in f:
        a, b, c = v[t]
        n = np.cross(b - a, c - a)
        ctr = (a + b + c) / 3
        if abs(n[2]) > 1e-12:
            want = 1.0 if ctr[2] > h / 2 else -1.0
            good = n[2] * want > 0
        else:
            radial = np.array((ctr[0], ctr[1], 0.0))
            inner = max(abs(ctr[0]), abs(ctr[1] / 1.1)) < 0.75
            good = (np.dot(n, radial) > 0) != inner
        out.append(tuple(t) if good else (t[0], t[2], t[1]))
    return v, np.array(out)


def sphere_hull(n):
    from scipy.spatial import ConvexHull

    k = np.arange(n) + 0.5
    phi, th = np.arccos(1 - 2 * k / n), np.pi * (1 + 5 ** 0.5) * k
    pts = np.c_[np.cos(th) * np.sin(phi), np.sin(th) * np.sin(phi), np.cos(phi)] * (1.0, 0.9, 1.1)
    return convex_mesh(pts, [tuple(int(i) for i in t) for t in ConvexHull(pts).simplices])


_SPH = {}


def meshes():
    M = {}
    M["frame"] = frame_mesh()
    ang = np.linspace(0, 2 * np.pi, 12, endpoint=False)
    M["ngon12"] = prism_from_polygon([(np.cos(a), 0.8 * np.sin(a)) for a in ang], [(0, i, i + 1) for i in range(1, 11)], 0.7)   # 24 vertices
    if 300 not in _SPH:
        _SPH[300] = sphere_hull(300)
    M["sphere300"] = _SPH[300]
    M["tetra"] = convex_mesh([(0, 0, 0), (1.3, 0, 0), (0.2, 1.1, 0), (0.3, 0.2, 0.9)], [(0, 1, 2), (0, 1, 3), (0, 2, 3), (1, 2, 3)])
    cv = [(x, y, z) for x in (0, 1.0) for y in (0, 1.2) for z in (0, 0.8)]
    cf = [(0, 1, 3), (0, 3, 2), (4, 6, 7), (4, 7, 5), (0, 4, 5), (0, 5, 1), (2, 3, 7), (2, 7, 6), (0, 2, 6), (0, 6, 4), (1, 5, 7), (1, 7, 3)]
    M["cube"] = convex_mesh(cv, cf)
    M["prism"] = prism_from_polygon([(0, 0), (1.4, 0), (0.3, 1.1)], [(0, 1, 2)], 0.9)
    ov = [(1, 0, 0), (-1, 0, 0), (0, 1.2, 0), (0, -1.2, 0), (0, 0, 0.8), (0, 0, -0.8)]
    of = [(0, 2, 4), (2, 1, 4), (1, 3, 4), (3, 0, 4), (2, 0, 5), (1, 2, 5), (3, 1, 5), (0, 3, 5)]
    M["octa"] = convex_mesh(ov, of)
    M["Lprism"] = prism_from_polygon([(0, 0), (2, 0), (2, 1), (1, 1), (1, 2), (0, 2)], [(0, 1, 2), (0, 2, 3), (0, 3, 4), (0, 4, 5)], 1.0)
    # a cube with a tiny corner chamfer (one face far smaller than the body) and a thin, obliquely placed rod (faces of
    # aspect ratio 200, small end caps): the reorientation seed may be any of these faces
    ch = 0.002
    chv = [(0, 0, 0), (1, 0, 0), (0, 1, 0), (1, 1, 0), (0, 0, 1), (1, 0, 1), (0, 1, 1), (1 - ch, 1, 1), (1, 1 - ch, 1), (1, 1, 1 - ch)]
    from scipy.spatial import ConvexHull
    from scipy.spatial.transform import Rotation as _R

    M["chamfer"] = convex_mesh(chv, [tuple(int(i) for i in t) for t in ConvexHull(np.array(chv)).simplices])
    rv = np.array([(x, y, z) for x in (0, 0.005) for y in (0, 0.005) for z in (0, 1.0)], float)
    rv = _R.from_rotvec((0.4, -0.7, 0.3)).apply(rv) + (0.1, 0.2, -0.05)
    M["rod"] = convex_mesh(rv, cf)
    M["Uprism"] = prism_from_polygon([(0, 0), (3, 0), (3, 2), (2, 2), (2, 1), (1, 1), (1, 2), (0, 2)],
                                     [(0, 1, 4), (1, 2, 3), (1, 3, 4), (0, 4, 5), (0, 5, 7), (5, 6, 7)], 0.7)
    return M


KNOWN_VOLUME = {"frame": (4.0 - 1.0) * 1.1 * 0.6, "chamfer": 1.0 - 0.002 ** 3 / 6, "rod": 0.005 * 0.005 * 1.0, "cube": 1.0 * 1.2 * 0.8, "Lprism": 3.0, "Uprism": 5.0 * 0.7, "prism": 0.5 * 1.4 * 1.1 * 0.9}


def signed_volume(v, f):
    a, b, c = v[f[:, 0]], v[f[:, 1]], v[f[:, 2]]
    return float(np.sum(np.einsum("ij,ij->i", a, np.cross(b, c))) / 6)


def oriented_set(faces):
    """set of faces up to cyclic rotation (orientation preserved)"""
    out = set()
    for f in np.asarray(faces).tolist():
        k = f.index(min(f))
        out.add(tuple(f[k:] + f[:k]))
    return out


def outside_points(v):
    c = v.mean(axis=0)
    s = np.max(np.linalg.norm(v - c, axis=1))
    d = np.array([(1, 0.2, 0.1), (-0.3, 1, 0.2), (0.1, -0.2, 1), (-1, -0.4, 0.3), (0.5, -1, -0.6), (-0.2, 0.4, -1)], float)
    d /= np.linalg.norm(d, axis=1, keepdims=True)
    return c + d * s * 2.2


def build(v, f, **kw):
    import magpylib as magpy

    return magpy.magnet.TriangularMesh(vertices=v, faces=f, polarization=(0.3, -0.2, 0.8), check_open="ignore",
                                       check_disconnected="ignore", check_selfintersecting="ignore", reorient_faces="ignore", **kw)


_REF = {}


def ref_H(name, scale):
    key = (name, scale)
    if key not in _REF:
        v, f = meshes()[name]
        m = build(v * scale, f)
        _REF[key] = m.getH(outside_points(v * scale))
    return _REF[key]


# ------------------------------------------------------------------ case kinds
def variant(v, f, order, flips, renum, cyc=0):
    """apply a face order, flip a subset of faces, renumber vertices; cyc rotates the index triple of the first face"""
    f2 = np.array(f)[list(order)].copy()
    for i in flips:
        f2[i] = f2[i][[0, 2, 1]]
    if cyc:
        f2[0] = np.roll(f2[0], cyc)
    perm = np.array(renum)          # new index of old vertex k is perm[k]
    v2 = np.empty_like(v)
    v2[perm] = v
    f2 = perm[f2]
    return v2, f2, perm


def add_unused_vertices(v2, f2, perm, where, kind, scale):
    """insert vertices that no face refers to at the given indices of the vertex array (faces renumbered)"""
    n_new = len(v2) + len(where)
    new_index = [i for i in range(n_new) if i not in where]           # old index k -> new_index[k]
    remap = np.array(new_index)
    v3 = np.empty((n_new, 3))
    v3[remap] = v2
    c0 = v2.mean(axis=0)
    for j, w in enumerate(where):
        v3[w] = c0 + (0.011 * (j + 1) * scale, -0.007 * scale, 0.005 * scale) if kind == "inside" else c0 + (10.0 + j) * scale
    return v3, remap[f2], remap[perm]


def run_orient(c):
    name, scale = c["mesh"], c.get("scale", 1.0)
    v, f = meshes()[name]
    v = v * scale
    nf = len(f)
    order = c["order"]
    flips = [i for i in range(nf) if (c["flipmask"] >> i) & 1]
    v2, f2, perm = variant(v, f, order, flips, c["renum"], c.get("cyc", 0))
    if c.get("unused"):
        v2, f2, perm = add_unused_vertices(v2, f2, perm, c["unused"], c.get("unused_where", "inside"), scale)
    if c.get("faces_dtype"):   # the index table as a numpy array of a narrow / unsigned / floating type (all hold the indices exactly)
        f2 = np.asarray(f2).astype(c["faces_dtype"])
    try:
        with common.time_limit(60):
            if c.get("hull"):
                import magpylib as magpy

                m = magpy.magnet.TriangularMesh.from_ConvexHull(
                    points=v2, polarization=(0.3, -0.2, 0.8), check_open="ignore", check_disconnected="ignore",
                    check_selfintersecting="ignore", reorient_faces="ignore")
            else:
                m = build(v2, f2)
    except Exception as e:
        return f"raised {type(e).__name__}: {e}"[:200]
    problems = []
    if c.get("hull"):
        # faces come from the hull algorithm: only statuses, volume and field are defined by the construction
        if signed_volume(np.array(m.vertices), np.array(m.faces)) <= 0:
            problems.append("signed-volume-not-positive")
        for k in ("open", "disconnected", "selfintersecting"):
            if getattr(m, "status_" + k) is not False:
                problems.append(f"status_{k}={getattr(m, 'status_' + k)}")
        if not problems:
            H = m.getH(outside_points(v))
            R = ref_H(name, scale)
            if np.max(np.abs(H - R)) > 1e-10 * np.max(np.abs(R)):
                problems.append("hull-field-differs")
        return ";".join(problems) if problems else None
    truth = oriented_set(perm[np.array(f)])
    got = oriented_set(m.faces)
    if got != truth:
        nbad = len(truth - got)
        inv = oriented_set(np.array(m.faces)[:, [0, 2, 1]])
        problems.append("all-faces-inwards" if inv == truth else f"{nbad}-faces-not-outwards")
    if signed_volume(np.array(m.vertices), np.array(m.faces)) <= 0:
        problems.append("signed-volume-not-positive")
    if m.status_open is not False:
        problems.append(f"status_open={m.status_open}")
    if m.status_disconnected is not False:
        problems.append(f"status_disconnected={m.status_disconnected}")
    if c.get("full") and m.status_selfintersecting is not False:
        problems.append(f"status_selfintersecting={m.status_selfintersecting}")
    if not problems and c.get("field"):
        H = m.getH(outside_points(v))
        R = ref_H(name, scale)
        if np.max(np.abs(H - R)) > 1e-10 * np.max(np.abs(R)):
            problems.append("field-depends-on-input-ordering")
    return ";".join(problems) if problems else None


def combine(parts):
    """parts: list of (v, f); returns concatenated mesh and part id per face"""
    vs, fs, ids, off = [], [], [], 0
    for k, (v, f) in enumerate(parts):
        vs.append(v)
        fs.append(np.array(f) + off)
        ids += [k] * len(f)
        off += len(v)
    return np.concatenate(vs), np.concatenate(fs), np.array(ids)


def interleave(ids, pattern):
    """face order for a multi-part mesh: 'AB' blocks, 'BA' blocks, 'alt' alternating, 'alt2' B first alternating"""
    a = [i for i, k in enumerate(ids) if k == 0]
    b = [i for i, k in enumerate(ids) if k == 1]
    if pattern == "AB":
        return a + b
    if pattern == "BA":
        return b + a
    first, second = (a, b) if pattern == "alt" else (b, a)
    out = []
    for x, y in itertools.zip_longest(first, second):
        if x is not None:
            out.append(x)
        if y is not None:
            out.append(y)
    return out


def run_derived(c):
    M = meshes()
    scale = c["scale"]
    kind = c["kind"]
    v, f = M[c["mesh"]]
    v = v * scale
    truth = {"open": False, "disconnected": False, "selfintersecting": False}
    if kind == "open":
        keep = [i for i in range(len(f)) if i not in c["delete"]]
        v2, f2 = v, f[keep]
        truth["open"] = True
    elif kind in ("smallpair", "pierced"):
        truth["disconnected"] = True
        truth["selfintersecting"] = True
        if kind == "smallpair":
            # two interpenetrating copies of the body shrunk to `ratio` of its size, next to the full-size body some sizes away
            r_ = c["ratio"]
            va = v * r_
            vb = v * r_ + np.array([0.31, 0.27, 0.22]) * r_ * scale
            parts = [(va, f), (vb, f), (v + np.array([4.0, 0.3, 0.2]) * scale, f)]
        else:
            # a body with few large faces pierced by a finely meshed small convex body, entering through a face away from its edges
            from scipy.spatial import ConvexHull

            k = np.arange(60) + 0.5
            phi, th = np.arccos(1 - 2 * k / 60), np.pi * (1 + 5 ** 0.5) * k
            pts = np.c_[np.cos(th) * np.sin(phi), np.sin(th) * np.sin(phi), np.cos(phi)] * (1.0, 0.9, 1.1) * c["radius"] * scale
            top = v[:, 2].max()
            ctr = np.array([v[:, 0].min() + c["entry"][0] * np.ptp(v[:, 0]), v[:, 1].min() + c["entry"][1] * np.ptp(v[:, 1]), top])
            hv, hf = convex_mesh(pts + ctr, [tuple(int(i) for i in t) for t in ConvexHull(pts).simplices])
            parts = [(v, f), (hv, hf)]
        v2, f2, ids = combine(parts)
        order = interleave(np.minimum(ids, 1), c["pattern"])
        f2 = f2[order]
    elif kind in ("disjoint", "intersecting", "spike"):
        if kind == "disjoint":
            shift = np.array(c["shift"]) * scale
            v_b, f_b = v + shift, f
            if c.get("mesh_b"):
                v_b, f_b = M[c["mesh_b"]]
                v_b = v_b * scale * c.get("scale_b", 1.0) + shift
            truth["disconnected"] = True
        elif kind == "intersecting":
            shift = np.array(c["shift"]) * scale
            v_b, f_b = v + shift, f
            truth["disconnected"] = True
            truth["selfintersecting"] = True
        else:  # a slender tetrahedral spike through one face of the body, no body edge touches it
            c0 = v.mean(axis=0)
            top = v[:, 2].max()
            s = scale
            sv = np.array([(0.05, 0.04, -0.2), (0.09, -0.03, -0.2), (-0.04, -0.02, -0.2), (0.02, 0.01, 0.5)]) * s
            sv = sv + (c0[0] + 0.013 * s, c0[1] + 0.017 * s, top)
            v_b, f_b = convex_mesh(sv, [(0, 1, 2), (0, 1, 3), (0, 2, 3), (1, 2, 3)])
            truth["disconnected"] = True
            truth["selfintersecting"] = True
        v2, f2, ids = combine([(v, f), (v_b, f_b)])
        order = interleave(ids, c["pattern"])
        f2 = f2[order]
        ids = ids[order]
        for i in range(len(f2)):
            if (c["flipmask"] >> i) & 1:
                f2[i] = f2[i][[0, 2, 1]]
        canon = oriented_set(combine([(v, f), (v_b, f_b)])[1])
    try:
        with common.time_limit(120):
            m = build(v2, f2)
    except Exception as e:
        return f"raised {type(e).__name__}: {e}"[:200]
    problems = []
    got = {"open": m.status_open, "disconnected": m.status_disconnected, "selfintersecting": m.status_selfintersecting}
    for k in truth:
        if got[k] is not truth[k]:
            problems.append(f"status_{k}={got[k]}-truth={truth[k]}")
    if kind == "disjoint" and not problems:
        if oriented_set(m.faces) != canon:
            problems.append("disconnected-part-not-outwards")
        elif c.get("field"):
            import magpylib as magpy

            pts = outside_points(v2)
            H = m.getH(pts)
            R = build(v, f).getH(pts) + build(v_b, f_b).getH(pts)
            if np.max(np.abs(H - R)) > 1e-9 * np.max(np.abs(R)):
                problems.append("disconnected-field-wrong")
    if kind == "open" and not problems:
        if m.status_open_data is None or len(m.status_open_data) == 0:
            problems.append("open-edges-not-reported")
    return ";".join(problems) if problems else None


# ------------------------------------------------------------------ histories on one mesh object
HIST_OPS = ["getH", "mesh", "reorient", "check_open", "triangles", "copy"]


def run_history(c):
    """a mesh built WITHOUT reorientation from wrongly wound faces, then any sequence of reads and repairs: once
    reorient_faces() has run, faces, field, Triangle-collection and copies must all describe the outward oriented body"""
    import itertools as it

    name = c["mesh"]
    v, f = meshes()[name]
    flips = [i for i in range(len(f)) if (c["flipmask"] >> i) & 1]
    v2, f2, perm = variant(v, f, list(range(len(f))), flips, list(range(len(v))))
    import magpylib as magpy

    m = magpy.magnet.TriangularMesh(vertices=v2, faces=f2, polarization=(0.3, -0.2, 0.8), check_open="skip", check_disconnected="skip",
                                    check_selfintersecting="skip", reorient_faces="skip")
    pts = outside_points(v)
    repaired = False
    problems = []
    for op in c["ops"]:
        if op == "getH":
            m.getH(pts)
        elif op == "mesh":
            _ = m.mesh
        elif op == "reorient":
            m.reorient_faces(mode="ignore")
            repaired = True
        elif op == "check_open":
            m.check_open(mode="ignore")
        elif op == "triangles":
            m.to_TriangleCollection()
        elif op == "copy":
            m = m.copy()
    if not repaired:
        return None
    truth = oriented_set(np.array(f))
    if oriented_set(m.faces) != truth:
        problems.append("faces-not-outwards-after-reorient_faces")
    R = ref_H(name, 1.0)
    H = m.getH(pts)
    if np.max(np.abs(H - R)) > 1e-10 * np.max(np.abs(R)):
        problems.append("field-not-updated-after-reorient_faces")
    Ht = m.to_TriangleCollection().getH(pts)
    if np.max(np.abs(Ht - R)) > 1e-9 * np.max(np.abs(R)):
        problems.append("triangle-collection-not-updated-after-reorient_faces")
    if oriented_set(m.mesh.tolist() and [tuple(t) for t in np.asarray(m.faces)]) != truth:
        problems.append("mesh-property-stale")
    mesh_from_faces = np.asarray(m.vertices)[np.asarray(m.faces)]
    if not np.array_equal(np.asarray(m.mesh), mesh_from_faces):
        problems.append("mesh-property-differs-from-vertices[faces]")
    return ";".join(problems) if problems else None


def run_soup(c):
    """triangle soups for from_mesh / from_triangles: a closed box assembled from a half shell and its mirror image (x -> -x), so
    that the points on the mirror plane appear as +0.0 and as -0.0; a box cut by a coordinate plane the same way"""
    import magpylib as magpy

    lo, hi = c["ext"]
    X = [0.0, hi[0]]
    pts = np.array([(x, y, z) for x in X for y in (lo[1], hi[1]) for z in (lo[2], hi[2])], float)
    cf = [(0, 1, 3), (0, 3, 2), (4, 6, 7), (4, 7, 5), (0, 4, 5), (0, 5, 1), (2, 3, 7), (2, 7, 6), (0, 2, 6), (0, 6, 4), (1, 5, 7), (1, 7, 3)]
    v, f = convex_mesh(pts, cf)
    half = [t for t in f if not np.all(v[list(t)][:, 0] == 0.0)]              # open at the plane x = 0
    soupA = v[np.array(half)]
    soupB = soupA.copy()
    soupB[..., 0] = soupB[..., 0] * -1.0                                        # mirror: 0.0 becomes -0.0
    soupB = soupB[:, [0, 2, 1], :]                                              # keep the winding outwards
    soup = np.concatenate([soupA, soupB])
    if c["shuffle"]:
        soup = soup[np.argsort((np.arange(len(soup)) * 7) % len(soup))]
    pol = (0.3, -0.2, 0.8)
    try:
        if c["via"] == "from_mesh":
            m = magpy.magnet.TriangularMesh.from_mesh(mesh=soup, polarization=pol, check_open="ignore", check_disconnected="ignore",
                                                      check_selfintersecting="ignore", reorient_faces="ignore")
        else:
            tris = [magpy.misc.Triangle(vertices=t, polarization=pol) for t in soup]
            m = magpy.magnet.TriangularMesh.from_triangles(triangles=tris, polarization=pol, check_open="ignore",
                                                           check_disconnected="ignore", check_selfintersecting="ignore", reorient_faces="ignore")
    except Exception as e:
        return f"raised {type(e).__name__}: {e}"[:200]
    problems = []
    if len(m.vertices) != 12:
        problems.append(f"{len(m.vertices)}-vertices-instead-of-12 (coincident points not merged)")
    for k in ("open", "disconnected", "selfintersecting"):
        if getattr(m, "status_" + k) is not False:
            problems.append(f"status_{k}={getattr(m, 'status_' + k)}")
    vol = 2 * hi[0] * (hi[1] - lo[1]) * (hi[2] - lo[2])
    if abs(signed_volume(np.array(m.vertices), np.array(m.faces)) - vol) > 1e-12 * vol:
        problems.append("signed-volume-wrong")
    if not problems:
        cub = magpy.magnet.Cuboid(dimension=(2 * hi[0], hi[1] - lo[1], hi[2] - lo[2]), polarization=pol,
                                  position=(0, (hi[1] + lo[1]) / 2, (hi[2] + lo[2]) / 2))
        pts_o = np.array([(3.1, 0.4, 0.3), (-2.2, 1.7, -0.9), (0.3, -2.5, 1.1)])
        if np.max(np.abs(m.getH(pts_o) - cub.getH(pts_o))) > 1e-10 * np.max(np.abs(cub.getH(pts_o))):
            problems.append("field-differs-from-the-box")
    return ";".join(problems) if problems else None


def work(c):
    try:
        if c["part"] == "soup":
            return run_soup(c)
        if c["part"] == "history":
            return run_history(c)
        return run_orient(c) if c["part"] == "orient" else run_derived(c)
    except Exception as e:
        import traceback

        return "HARNESS " + f"{type(e).__name__}: {e} {traceback.format_exc()[-300:]}"


def renumberings(nv, k):
    base = list(range(nv))
    out = [base, base[::-1], base[1:] + base[:1]]
    if k > 3:
        out += [list(p) for p in itertools.islice(itertools.permutations(base), 0, None, max(1, np.math.factorial(nv) // (k - 3)))][:k - 3]
    return out[:k]


def enumerate_cases(tier):
    M = meshes()
    cases = []
    # tetrahedron: ALL 4! face orders x 2^4 flips x 4! vertex renumberings
    for order in itertools.permutations(range(4)):
        for mask in range(16):
            for renum in itertools.permutations(range(4)):
                cases.append({"part": "orient", "mesh": "tetra", "order": list(order), "flipmask": mask, "renum": list(renum),
                              "field": mask in (3, 15) and order[0] == 2, "full": mask % 5 == 0})
    # other meshes: every face as first face x all flip subsets (2^8) or all subsets for the cube (2^12); orders
    for name in ("prism", "octa", "cube", "Lprism", "Uprism", "frame"):
        v, f = M[name]
        nf, nv = len(f), len(v)
        if nf <= 8:
            masks = range(2 ** nf)
        elif nf <= 12:
            masks = range(2 ** nf) if tier == "thorough" or True else None
        else:
            idx = range(nf)
            small = [sum(1 << i for i in s) for k in (0, 1, 2, 3) for s in itertools.combinations(idx, k)]
            full = (1 << nf) - 1
            masks = sorted(set(small + [full ^ m for m in small]))
            if tier == "quick":
                masks = [m for m in masks if bin(m).count("1") <= 2 or bin(m).count("1") >= nf - 2]
                if name == "frame":   # all single flips, neighbouring pairs, and their complements
                    masks = [m for m in masks if bin(m).count("1") <= 1 or bin(m).count("1") >= nf - 1] + [3 << i for i in range(nf - 1)]
        firsts = range(nf) if (nf <= 8 or tier == "thorough") else [0, nf // 2, nf - 1]
        if name == "cube":
            firsts = range(nf) if tier == "thorough" else [0, 5, 11]
        for first in firsts:
            base = list(range(first, nf)) + list(range(first))
            orders = [base, base[::-1]] if tier == "quick" else [base, base[::-1], base[::2] + base[1::2]]
            for oi, order in enumerate(orders):
                for mask in masks:
                    if oi > 0 and name == "cube" and mask % 7:
                        continue
                    for ri, renum in enumerate(renumberings(nv, 2 if tier == "quick" else 3)):
                        if ri > 0 and mask % 5:
                            continue
                        cases.append({"part": "orient", "mesh": name, "order": order, "flipmask": int(mask), "renum": renum,
                                      "field": mask % 64 == 1, "full": mask % 16 == 0})
    # small / thin seed faces: every face first, in each cyclic index order, wound either way, a few other flips
    for name in ("chamfer", "rod"):
        v, f = M[name]
        nf, nv = len(f), len(v)
        for first in range(nf):
            base = list(range(first, nf)) + list(range(first))
            for cyc in (0, 1, 2):
                for mask in (0, 1, 2, 3, (1 << nf) - 1, (1 << nf) - 2):
                    cases.append({"part": "orient", "mesh": name, "order": base, "flipmask": int(mask), "renum": list(range(nv)), "cyc": cyc,
                                  "field": mask in (0, 1), "full": True})
    # vertices that no face refers to (e.g. interior points kept by from_ConvexHull, filtered meshes)
    for name in ("tetra", "cube", "octa", "Lprism"):
        v, f = M[name]
        nf, nv = len(f), len(v)
        base = list(range(nf))
        for where in ([0], [nv // 2], [nv], [1, nv // 2 + 1], [0, nv + 1], [0, 1, 2], [0, 1, 2, 3, 4], list(range(9)), [2 * i for i in range(min(6, nv))],
                      list(range(nv, nv + 7))):
            for kind in ("inside", "far"):
                for order in (base, base[::-1]):
                    for mask in (0, 1, 5, (1 << nf) - 1):
                        cases.append({"part": "orient", "mesh": name, "order": order, "flipmask": mask, "renum": list(range(nv)),
                                      "unused": where, "unused_where": kind, "field": True, "full": True})
            if name != "Lprism":
                cases.append({"part": "orient", "mesh": name, "order": base, "flipmask": 0, "renum": list(range(nv)),
                              "unused": where, "unused_where": "inside", "hull": True})
                cases.append({"part": "orient", "mesh": name, "order": base, "flipmask": 0, "renum": list(range(nv))[::-1],
                              "unused": where, "unused_where": "inside", "hull": True})
    # ALL placements of the used vertices among N slots of the vertex array (the other slots hold points no face refers to):
    # statuses, orientation and field must not depend on which indices the faces use
    for name, N in ((("tetra", 12), ("octa", 11)) if tier == "quick" else (("tetra", 16), ("octa", 14), ("prism", 12))):
        v, f = M[name]
        nf, nv = len(f), len(v)
        for used in itertools.combinations(range(N), nv):
            where = [i for i in range(N) if i not in used]
            cases.append({"part": "orient", "mesh": name, "order": list(range(nf)), "flipmask": 5 if sum(used) % 3 == 0 else 0, "renum": list(range(nv)),
                          "unused": where, "unused_where": "inside" if sum(used) % 2 else "far", "field": sum(used) % 7 == 0, "full": True})
    # index tables in every integer width that can hold them (and as floats), on meshes with 24 and 300 vertices
    for name, dts in (("ngon12", ("uint8", "int8", "int16", "uint16", "int32", "uint32", "int64", "uint64", "float32", "float64")),
                      ("sphere300", ("int16", "uint16", "int32", "uint32", "float32"))):
        v, f = M[name]
        nf, nv = len(f), len(v)
        for dt in dts:
            for mask in (0, 1, (1 << nf) - 1) if name == "ngon12" else (0, 5):
                cases.append({"part": "orient", "mesh": name, "order": list(range(nf)), "flipmask": mask, "renum": list(range(nv)),
                              "faces_dtype": dt, "field": True, "full": name == "ngon12"})
    for ext in (((0, 0, 0), (1.0, 1.2, 0.8)), ((0, -0.6, -0.4), (0.7, 0.6, 0.4))):
        for via in ("from_mesh", "from_triangles"):
            for shuffle in (False, True):
                cases.append({"part": "soup", "ext": [list(ext[0]), list(ext[1])], "via": via, "shuffle": shuffle})
    # read / repair histories on a mesh built with reorient_faces='skip'
    for name in ("tetra", "cube"):
        nf = len(M[name][1])
        for mask in (1, 5, (1 << nf) - 1, (1 << nf) - 2):
            for n in (1, 2, 3):
                for ops in itertools.product(HIST_OPS, repeat=n):
                    if "reorient" not in ops:
                        continue
                    cases.append({"part": "history", "mesh": name, "flipmask": int(mask), "ops": list(ops)})
    scales = [1e-3, 1.0, 1e2]
    # open meshes: every subset of <= 2 deleted faces
    for name in ("tetra", "cube", "octa", "Lprism"):
        nf = len(M[name][1])
        for k in (1, 2):
            for dele in itertools.combinations(range(nf), k):
                for sc in scales if (k == 1 or name == "tetra") else [1.0]:
                    cases.append({"part": "derived", "kind": "open", "mesh": name, "delete": list(dele), "scale": sc})
    # two disjoint copies: interleavings x flips
    for name in ("tetra", "octa", "cube"):
        nf = len(M[name][1]) * 2
        if nf <= 8:
            masks = list(range(2 ** nf))
        else:
            idx = range(nf)
            masks = [sum(1 << i for i in s) for k in (0, 1, 2) for s in itertools.combinations(idx, k)]
            masks += [((1 << nf) - 1) ^ m for m in masks[:1 + nf]]
            if name == "cube" and tier == "quick":
                masks = masks[:1 + nf + 60]
        for pattern in ("AB", "BA", "alt", "alt2"):
            for mask in masks:
                for sc in (scales if mask in (0, 5) else [1.0]):
                    cases.append({"part": "derived", "kind": "disjoint", "mesh": name, "shift": [3.1, 0.4, 0.3], "pattern": pattern,
                                  "flipmask": int(mask), "scale": sc, "field": mask % 9 == 1})
    # a body with a through-hole next to (or with, inside its hole) a simple body: Euler characteristics 0 + 2
    for a, b, shift, sb in (("frame", "cube", [3.1, 0.4, 0.3], 1.0), ("frame", "tetra", [-0.1, -0.1, 0.1], 0.3), ("cube", "frame", [4.0, 0.2, 0.1], 1.0),
                            ("frame", "frame", [3.5, 0.2, 0.1], 1.0), ("frame", "octa", [0.0, 0.0, 2.5], 1.0)):
        nf = len(M[a][1]) + len(M[b][1])
        for pattern in ("AB", "BA", "alt", "alt2"):
            for mask in (0, 1, 1 << (nf - 1), (1 << nf) - 1, 5):
                cases.append({"part": "derived", "kind": "disjoint", "mesh": a, "mesh_b": b, "scale_b": sb, "shift": shift, "pattern": pattern,
                              "flipmask": int(mask), "scale": 1.0, "field": mask in (0, 5)})
    # interpenetrating copies in general position (a vertex of each strictly inside the other)
    for name in ("tetra", "cube", "octa"):
        for shift in ([0.31, 0.27, 0.22], [0.45, -0.2, 0.13], [-0.28, 0.33, -0.19], [0.2, 0.41, 0.3]):
            for pattern in ("AB", "BA", "alt", "alt2"):
                for sc in scales + ([6e9, 2e-12, 1e9, 1e-9] if pattern == "AB" else []):
                    cases.append({"part": "derived", "kind": "intersecting", "mesh": name, "shift": shift, "pattern": pattern,
                                  "flipmask": 0, "scale": sc})
    # interpenetrating parts that are small against the whole mesh; a coarse body pierced by a finely meshed one
    for name in ("cube", "tetra", "octa"):
        for ratio in (0.1, 0.01, 0.003, 0.001):
            for pattern in ("AB", "BA", "alt"):
                for sc in ((1.0,) if tier == "quick" else scales):
                    cases.append({"part": "derived", "kind": "smallpair", "mesh": name, "ratio": ratio, "pattern": pattern, "flipmask": 0, "scale": sc})
    for name in ("cube", "Lprism"):
        for radius in (0.2, 0.08, 0.03):
            for entry in ((0.5, 0.5), (0.3, 0.6), (0.7, 0.35), (0.62, 0.71), (0.25, 0.3), (0.45, 0.8)):
                if name == "Lprism" and entry in ((0.5, 0.5), (0.62, 0.71)):
                    continue    # the concave corner / the notch of the L: not over the body
                for pattern in ("AB", "BA"):
                    cases.append({"part": "derived", "kind": "pierced", "mesh": name, "radius": radius, "entry": list(entry), "pattern": pattern,
                                  "flipmask": 0, "scale": 1.0})
    for name in ("cube", "Lprism"):
        for pattern in ("AB", "BA", "alt", "alt2"):
            for sc in scales:
                cases.append({"part": "derived", "kind": "spike", "mesh": name, "pattern": pattern, "flipmask": 0, "scale": sc})
    return cases


def self_test():
    """the construction's truth: outward orientation <=> positive signed volume equal to the known volume"""
    errs = []
    for name, (v, f) in meshes().items():
        vol = signed_volume(v, f)
        if vol <= 0:
            errs.append(f"{name}: signed volume {vol}")
        if name in KNOWN_VOLUME and abs(vol - KNOWN_VOLUME[name]) > 1e-12:
            errs.append(f"{name}: volume {vol} != {KNOWN_VOLUME[name]}")
        e = {}
        for t in f:
            for a, b in ((t[0], t[1]), (t[1], t[2]), (t[2], t[0])):
                e[(a, b)] = e.get((a, b), 0) + 1
        if any(n != 1 for n in e.values()) or any((b, a) not in e for (a, b) in e):
            errs.append(f"{name}: not a consistently oriented closed manifold")
    return errs


def run(tier, seed):
    harness = self_test()
    cases = enumerate_cases(tier)
    res = common.pmap(work, cases)
    viols = []
    for c, r in zip(cases, res):
        if r is None:
            continue
        if r.startswith("HARNESS"):
            harness.append(f"{c}: {r}")
            continue
        if c["part"] == "soup":
            key = f"C16|soup|{c['via']}|{r.split(';')[0].split(' ')[0]}"
        elif c["part"] == "history":
            key = f"C16|history|{c['mesh']}|{r.split(';')[0]}"
        elif c["part"] == "orient":
            key = f"C16|orient|{c['mesh']}|{r.split(';')[0]}"
        else:
            key = f"C16|{c['kind']}|{c['mesh']}|scale={c['scale']}|{r.split(';')[0]}"
        viols.append({"key": key, "what": f"{c}: {r}", "case": c, "observed": r})
    north = sum(1 for c in cases if c["part"] == "orient")
    cov = {
        "evaluations": len(cases),
        "distinct_nontrivial": sum(1 for c in cases if c["part"] in ("derived", "history", "soup") or c["flipmask"] or c["order"] != sorted(c["order"])),
        "rule": "one evaluation = one TriangularMesh construction from a variant of a mesh whose outward faces are known by "
                "construction; variants are distinct (face order, flip subset, vertex renumbering | deleted faces | part "
                "interleaving, flips, offset, scale); non-trivial = anything but the canonical input",
        "samples": [cases[1], cases[north + 3], cases[-1]],
        "exhaustive": True, "orientation_cases": north, "derived_cases": len(cases) - north,
        "meshes": {k: {"vertices": len(v), "faces": len(f)} for k, (v, f) in meshes().items()},
        "excluded_ambiguous": "touching / coplanar contacts between bodies (whether they count as self-intersection is not "
                              "settled by the property); only general-position penetrations are generated",
    }
    return {"coverage": cov, "violations": viols, "harness_errors": harness[:5],
            "assumptions": ["ground truth = construction (verified: closed oriented manifold with the known positive volume)"]}


def replay(case):
    r = work(case)
    return {"violated": r is not None and not str(r).startswith("HARNESS"), "observed": r}
