"""C17 - malformed inputs are rejected at assignment, valid ones stored faithfully.

Grid explorer: a finite generated value grammar (scalars, nested sequences of rank 1..4 with axis
lengths 0..6 as list / tuple / ndarray(int|float), mutated copies of valid values, geometry-specific
invalid values) x every documented attribute of every class x {constructor, setter, copy(attr=)}.
A specification table (documented shape / type / geometry constraints) decides accept or reject.
Reject => the library's input error at that statement and the object unchanged. Accept => read-back
equals the input as float array, no shared memory with the caller's array, constructor == setter,
None reads back None, and a later getB either works (finite) or raises MagpylibMissingInput.
"""
import numpy as np

from mc import common

LEVEL = "exploration"


# ------------------------------------------------------------------ grammar
def grammar(tier):
    vals = []
    SC = [("int", 2), ("float", 2.5), ("npfloat", np.float64(2.5)), ("npint", np.int64(3)), ("neg", -2.5), ("None", None),
          ("str", "a"), ("dict", {"a": 1}), ("set", {1.0, 2.0, 3.0}), ("func", len), ("complex", 1 + 2j),
          ("nd0f", np.array(1.5)), ("nd0i", np.array(2)), ("nd0squeezed", np.squeeze(np.array([[2.0]])))]
    vals += SC
    base = [0.5, 1.5, 2.5, 3.5, 4.5, 5.5, 6.5]

    def containers(name, v):
        yield name + ":list", v
        yield name + ":tuple", _tup(v)
        try:
            a = np.array(v, dtype=float)
            yield name + ":ndf", a
            yield name + ":ndi", np.round(a * 2).astype(int)
        except Exception:
            pass

    for n in range(0, 7):
        vals += list(containers(f"r1n{n}", base[:n]))
    for n0 in range(0, 6):
        for n1 in range(1, 6):
            vals += list(containers(f"r2_{n0}x{n1}", [[0.1 * (i + 1) + j + 0.37 * ((i * 7 + j * 3 + i * j) % 5) for j in range(n1)] for i in range(n0)]))
    r3 = [(1, 1, 3), (2, 3, 3), (1, 3, 3), (2, 2, 3), (3, 3, 3), (2, 4, 3), (1, 4, 3), (2, 3, 2), (4, 3, 1), (3, 4, 3)]
    for shp in r3:
        vals += list(containers("r3_" + "x".join(map(str, shp)), (np.arange(np.prod(shp)).reshape(shp) * 0.1 + 0.1 + 0.37 * (np.arange(np.prod(shp)).reshape(shp) ** 2 % 7)).tolist()))
    if tier == "thorough":
        for shp in [(1, 1, 1, 3), (2, 2, 2, 3), (2, 1, 4, 3), (2, 2, 3, 2)]:
            vals += list(containers("r4_" + "x".join(map(str, shp)), (np.arange(np.prod(shp)).reshape(shp) * 0.1 + 0.1).tolist()))
    vals += [("with_none3", [1.5, None, 3.5]), ("with_none2", [1.5, None]), ("with_none_nested", [[1.5, None, 3.5], [1.0, 2.0, 3.0]]),
             ("with_none5", (1.0, 2.0, 1.5, None, 90.0)),
             ("complex_nd3", np.array([1.5 + 2j, 2.5, 3.5])), ("complex_nd3_real", np.array([1.5 + 0j, 2.5, 3.5])),
             ("empty_0x3", np.zeros((0, 3))), ("empty_0x3_list", np.zeros((0, 3)).tolist()), ("obj_nd3", np.array([1.5, 2.5, 3.5], dtype=object))]
    vals += [("mixed_str", [1, "a", 3]), ("neg3", [-1, 2, 3]), ("neg2", [-1, 2]), ("ragged", [[1, 2, 3], [1, 2]]),
             ("nested_extra", [[1.0, 2.0, 3.0]]), ("transposed43", np.arange(12.0).reshape(3, 4) + 0.1)]
    # cylinder segment specific
    vals += [("seg_ok", (1, 2, 1, 0, 90)), ("seg_r_swapped", (2, 1, 1, 0, 90)), ("seg_phi_reversed", (1, 2, 1, 90, 0)),
             ("seg_gt360", (1, 2, 1, 0, 400)), ("seg_negh", (1, 2, -1, 0, 90)), ("seg_negr", (-1, 2, 1, 0, 90)),
             ("seg_ok_beyond360", (1, 2, 3, 300, 400)), ("seg_ok_negative", (1, 2, 3, -400, -300)),
             ("seg_gt360_straddle", (1, 2, 3, -200, 200)), ("seg_gt360_b", (0, 2, 3, -181, 180)), ("seg_full", (0, 2, 3, 0, 360)),
             ("seg_full_neg", (0.5, 2, 3, -360, 0)), ("seg_str", (1, 2, 1, 0, "a"))]
    from scipy.spatial.transform import Rotation as R

    vals += [("rot_len0", R.from_quat(np.empty((0, 4)))),
             ("rot_single", R.from_rotvec((0.1, 0.2, 0.3))), ("rot_len1", R.from_rotvec([(0.1, 0.2, 0.3)])),
             ("rot_len3", R.from_rotvec([(0.1, 0.2, 0.3), (0, 0, 1), (1, 0, 0)])),
             ("ff_ok", _ff_ok), ("ff_badsig", _ff_badsig), ("ff_badshape", _ff_badshape), ("ff_list", _ff_list)]
    vals += [(f"ffgen_{b}_{h}", ff_gen(b, h)) for b in FF_BEHAVIOURS for h in FF_BEHAVIOURS]
    # face index tables of the 4-vertex mesh with ONE entry replaced by an index below, at and beyond either end of the range
    _f0 = [(0, 2, 1), (0, 1, 3), (0, 3, 2), (1, 2, 3)]
    for k in (-40, -6, -5, -4, -1, 3, 4, 5, 40):
        for pos in ((0, 0), (3, 2)):
            f = [list(t) for t in _f0]
            f[pos[0]][pos[1]] = k
            vals += [(f"fidx{k}at{pos[0]}{pos[1]}:list", f), (f"fidx{k}at{pos[0]}{pos[1]}:ndi", np.array(f, dtype=int))]
    # strings for enumerations
    vals += [("left", "left"), ("right", "right"), ("Left", "Left"), ("up", "up")]
    return vals


def _ff_ok(field, observers):
    return np.array(observers) * 2.0


def _ff_badsig(observers, field):
    return np.array(observers) * 2.0


def _ff_badshape(field, observers):
    return np.zeros((len(observers) + 1, 3))


def _ff_list(field, observers):
    return [[0.0, 0.0, 0.0]] * len(observers)


FF_BEHAVIOURS = ["ok", "none", "badshape", "list", "scalar", "shape3", "n2"]


def _ff_out(kind, observers):
    n = len(observers)
    return {"ok": lambda: np.array(observers) * 2.0, "none": lambda: None, "badshape": lambda: np.zeros((n + 1, 3)),
            "list": lambda: [[0.0, 0.0, 0.0]] * n, "scalar": lambda: 1.5, "shape3": lambda: np.zeros(3),
            "n2": lambda: np.zeros((n, 2))}[kind]()


def _make_ff(bk, hk):
    def f(field, observers):
        return _ff_out(bk if field == "B" else hk, observers)

    f.behaviour = (bk, hk)
    f.__name__ = f.__qualname__ = f"_ffgen_{bk}_{hk}"   # module-level name: picklable by reference
    return f


for _b in FF_BEHAVIOURS:
    for _h in FF_BEHAVIOURS:
        globals()[f"_ffgen_{_b}_{_h}"] = _make_ff(_b, _h)


def ff_gen(bk, hk):
    """field function behaving as bk for 'B' and as hk for 'H' (one module-level function object per pair)"""
    return globals()[f"_ffgen_{bk}_{hk}"]


def is_rot(v):
    from scipy.spatial.transform import Rotation as R

    return isinstance(v, R)


def orient(v):
    if is_rot(v) and not v.single and len(v) == 0:
        return False                         # a path has at least one step
    return v is None or is_rot(v)


def fieldfunc(v):
    if v is None or v is _ff_ok:
        return True
    beh = getattr(v, "behaviour", None)
    if beh is not None:
        if beh == ("none", "none"):
            return AMBIG      # a function that provides no field at all: not settled by the documentation
        return all(b in ("ok", "none") for b in beh)
    return False


def _tup(v):
    return tuple(_tup(x) for x in v) if isinstance(v, list) else v


def shape(v):
    if isinstance(v, (str, dict, set)) or callable(v) or is_rot(v):
        return None
    try:
        o = np.array(v, dtype=object)
        if o.ndim and any(x is None for x in o.ravel()):
            return None                      # None is not a number (numpy would turn it into nan)
        c = np.asarray(v)
        if np.iscomplexobj(c) and np.any(c.imag != 0):
            return None                      # complex numbers are not float compatible
        a = np.array(v, dtype=float)
    except Exception:
        return None
    return a.shape


def seq(v):
    return isinstance(v, (list, tuple, np.ndarray))


def arr(v):
    return np.array(v, dtype=float)


AMBIG = object()
REFUSE = object()   # must not be accepted; which error is raised at creation is not prescribed


def vec(n):
    return lambda v: v is None or (seq(v) and shape(v) == (n,))


def size_vec(n):
    def f(v):
        if v is None:
            return True
        if not (seq(v) and shape(v) == (n,)):
            return False
        a = arr(v)
        if np.any(a == 0):
            return AMBIG
        return bool(np.all(a > 0))
    return f


def size_scalar(v):
    if v is None:
        return True
    if isinstance(v, bool) or not isinstance(v, (int, float, np.floating, np.integer)):
        return False
    if v == 0:
        return AMBIG
    return v > 0


def scalar(v):
    return v is None or (not isinstance(v, bool) and isinstance(v, (int, float, np.floating, np.integer)))


def segment(v):
    if v is None:
        return True
    if not (seq(v) and shape(v) == (5,)):
        return False
    r1, r2, h, p1, p2 = arr(v)
    if r1 == r2 or p1 == p2 or h == 0 or r2 == 0:
        return AMBIG
    return bool(0 <= r1 < r2 and h > 0 and p1 < p2 and p2 - p1 <= 360)


def nverts(n):
    return lambda v: v is None or (seq(v) and shape(v) == (n, 3))


def polyverts(v):
    try:
        if seq(v) and any(x is None for x in np.array(v, dtype=object).ravel()):
            return AMBIG      # rows of None mark line breaks of a discontinuous Polyline (pinned by tests/test_obj_Polyline.py)
    except Exception:
        pass
    s = shape(v)
    return v is None or (seq(v) and s is not None and len(s) == 2 and s[1] == 3 and s[0] >= 2)


def meshverts(v):
    s = shape(v)
    if not (seq(v) and s is not None and len(s) == 2 and s[1] == 3):
        return False
    return True if s[0] >= 4 else AMBIG       # fewer vertices than the faces refer to: index error, not a format question


def meshfaces(v):
    s = shape(v)
    if not (seq(v) and s is not None and len(s) == 2 and s[1] == 3 and s[0] >= 1):
        return False
    a = arr(v)
    if np.any(a != np.round(a)):
        return False                           # a face is a triple of vertex INDICES
    if np.any(a < -4) or np.any(a > 3):
        return REFUSE                          # refers to a vertex that does not exist (4 vertices): must be refused at creation
    if np.any(a < 0):
        return AMBIG                           # negative indices within range (numpy semantics): excluded
    return True


CTOR_ONLY = {("TriangularMesh", "vertices"), ("TriangularMesh", "faces"), ("TriangularMeshSkip", "vertices"), ("TriangularMeshSkip", "faces")}


def pixel(v):
    s = shape(v)
    return v is None or (seq(v) and s is not None and len(s) >= 1 and s[-1] == 3 and 0 not in s)


def path(v):
    s = shape(v)
    return seq(v) and s is not None and len(s) in (1, 2) and s[-1] == 3 and 0 not in s


def handed(v):
    return isinstance(v, str) and v in ("left", "right")


def classes():
    import magpylib as magpy

    pol = (0.1, 0.2, 0.3)
    TV = [(0, 0, 0), (1, 0, 0), (0, 1, 0), (0, 0, 1)]
    return {
        "Cuboid": (magpy.magnet.Cuboid, dict(dimension=(1, 2, 3), polarization=pol)),
        "Cylinder": (magpy.magnet.Cylinder, dict(dimension=(1, 2), polarization=pol)),
        "CylinderSegment": (magpy.magnet.CylinderSegment, dict(dimension=(1, 2, 1, 0, 90), polarization=pol)),
        "Sphere": (magpy.magnet.Sphere, dict(diameter=1.5, polarization=pol)),
        "Tetrahedron": (magpy.magnet.Tetrahedron, dict(vertices=TV, polarization=pol)),
        "Triangle": (magpy.misc.Triangle, dict(vertices=TV[:3], polarization=pol)),
        "Circle": (magpy.current.Circle, dict(diameter=2.0, current=1.5)),
        "Polyline": (magpy.current.Polyline, dict(vertices=[(0, 0, 0), (1, 1, 0), (1, 2, 3)], current=1.5)),
        "Dipole": (magpy.misc.Dipole, dict(moment=(1, 2, 3))),
        "Sensor": (magpy.Sensor, dict(pixel=[(0, 0, 0), (0.1, 0, 0)])),
        "CustomSource": (magpy.misc.CustomSource, dict(field_func=_ff_ok)),
        "Collection": (lambda **kw: magpy.Collection(magpy.magnet.Sphere(diameter=1, polarization=(0, 0, 1), position=(1, 0, 0)),
                                                     magpy.Sensor(position=(0, 1, 0)), **kw), dict()),
        "TriangularMesh": (magpy.magnet.TriangularMesh, dict(vertices=TV, faces=[(0, 2, 1), (0, 1, 3), (0, 3, 2), (1, 2, 3)], polarization=pol,
                                                             check_open="ignore", check_disconnected="ignore",
                                                             check_selfintersecting="ignore", reorient_faces="ignore")),
        # the same class with every optional mesh check switched off by the user: the input checks are not optional
        "TriangularMeshSkip": (magpy.magnet.TriangularMesh, dict(vertices=TV, faces=[(0, 2, 1), (0, 1, 3), (0, 3, 2), (1, 2, 3)], polarization=pol,
                                                                 check_open="skip", check_disconnected="skip",
                                                                 check_selfintersecting="skip", reorient_faces="skip")),
    }


SPEC = {
    ("Cuboid", "dimension"): size_vec(3), ("Cylinder", "dimension"): size_vec(2), ("CylinderSegment", "dimension"): segment,
    ("Sphere", "diameter"): size_scalar, ("Circle", "diameter"): size_scalar,
    ("Tetrahedron", "vertices"): nverts(4), ("Triangle", "vertices"): nverts(3), ("Polyline", "vertices"): polyverts,
    ("Circle", "current"): scalar, ("Polyline", "current"): scalar,
    ("Dipole", "moment"): vec(3), ("Sensor", "pixel"): pixel, ("Sensor", "handedness"): handed,
}
for _c in ("Cuboid", "Cylinder", "CylinderSegment", "Sphere", "Tetrahedron", "Triangle"):
    SPEC[(_c, "polarization")] = vec(3)
    SPEC[(_c, "magnetization")] = vec(3)
for _c in ("Cuboid", "Cylinder", "CylinderSegment", "Sphere", "Tetrahedron", "Triangle", "Circle", "Polyline", "Dipole", "Sensor",
           "CustomSource", "Collection"):
    SPEC[(_c, "position")] = path
    SPEC[(_c, "orientation")] = orient
SPEC[("CustomSource", "field_func")] = fieldfunc
SPEC[("TriangularMesh", "vertices")] = meshverts
SPEC[("TriangularMesh", "faces")] = meshfaces
SPEC[("TriangularMeshSkip", "vertices")] = meshverts
SPEC[("TriangularMeshSkip", "faces")] = meshfaces
SPEC[("TriangularMesh", "polarization")] = vec(3)
SPEC[("TriangularMesh", "position")] = path


def snap(o):
    d = {}
    for i, ch in enumerate(getattr(o, "_children", [])):   # a rejected assignment on a Collection must not move its children
        d[f"child{i}"] = (ch._position.shape, ch._position.tobytes(), ch._orientation.as_quat().tobytes(), id(ch._parent))
    for k, v in vars(o).items():
        if k in ("_style", "_style_kwargs", "_parent"):
            continue
        if isinstance(v, np.ndarray):
            d[k] = (v.shape, v.tobytes())
        elif hasattr(v, "as_quat"):
            d[k] = v.as_quat().tobytes()
        else:
            d[k] = repr(v)
    return d


def check_one(task):
    from magpylib._src.exceptions import MagpylibBadUserInput, MagpylibMissingInput

    cls, attr, vname, v = task
    C, base = classes()[cls]
    valid = SPEC[(cls, attr)](v)
    if valid is AMBIG:
        return {"ambiguous": True, "problems": []}
    refuse_any = valid is REFUSE    # not a format / geometry error of the statement's list: any error raised at creation is a refusal
    if refuse_any:
        valid = False
    problems = []
    results = {}
    for via in (("ctor",) if (cls, attr) in CTOR_ONLY else ("ctor", "setter", "copy")):
        kw = {k: w for k, w in base.items() if not (k in ("polarization", "magnetization") and attr in ("polarization", "magnetization"))}
        caller = v.copy() if isinstance(v, np.ndarray) else v
        try:
            if via == "ctor":
                kw2 = dict(kw)
                kw2[attr] = caller
                o = C(**kw2)
                before = None
            elif via == "setter":
                o = C(**(base if attr in ("polarization", "magnetization") else kw))   # a complete, valid object
                before = snap(o)
                setattr(o, attr, caller)
            else:
                o0 = C(**kw)
                before = snap(o0)
                o = o0.copy(**{attr: caller})
                if snap(o0) != before:
                    problems.append((f"copy-kwarg-changed-original", via))
                before = None
            got = "ok"
        except (MagpylibBadUserInput, MagpylibMissingInput):
            got = "rejected"
        except Exception as e:
            got = "EXC:" + type(e).__name__
        results[via] = got
        if valid and got != "ok":
            problems.append((f"valid-value-{got.replace(':', '-')}", via))
            continue
        if not valid:
            if got == "ok":
                problems.append(("invalid-value-accepted", via))
                # does it blow up later inside the field computation?
                try:
                    if cls == "Collection":
                        B = o.getB()
                    elif cls != "Sensor":
                        B = o.getB((7.0, 8.0, 9.0))
                    else:
                        B = o.getB(C0())
                except MagpylibMissingInput:
                    pass
                except Exception as e:
                    problems.append((f"accepted-object-fails-later-{type(e).__name__}", via))
            elif got != "rejected" and not refuse_any:
                problems.append((f"wrong-exception-{got[4:]}", via))
            if got != "ok" and via == "setter" and snap(o) != before:
                problems.append(("rejected-assignment-changed-object", via))
            continue
        # accepted valid value
        rb = getattr(o, attr)
        if v is None and attr == "orientation":
            if np.max(np.abs(rb.as_matrix() - np.eye(3))) > 0:
                problems.append(("None-orientation-not-identity", via))
        elif v is None:
            if rb is not None:
                problems.append(("None-not-read-back", via))
        elif attr == "handedness":
            if rb != v:
                problems.append(("readback-differs", via))
        elif attr == "field_func":
            if rb is not v:
                problems.append(("readback-differs", via))
        elif attr == "faces":   # vertex indices: stored as integers; the winding of a face may be changed by reorientation
            rbi = np.asarray(rb)
            if rbi.dtype.kind != "i":
                problems.append((f"stored-dtype-{rbi.dtype}", via))
            if sorted(map(sorted, rbi.tolist())) != sorted(map(sorted, np.array(v, float).astype(int).tolist())):
                problems.append(("readback-differs", via))
            if isinstance(caller, np.ndarray) and np.shares_memory(rbi, caller):
                problems.append(("stored-array-shares-memory-with-input", via))
        elif attr == "orientation":
            m1 = rb.as_matrix().reshape(-1, 3, 3)
            m0 = v.as_matrix().reshape(-1, 3, 3)
            if m1.shape != m0.shape or np.max(np.abs(m1 - m0)) > 1e-15:
                problems.append(("readback-differs", via))
            if len(o._position) != len(o._orientation):
                problems.append(("path-lengths-differ", via))
        else:
            a = np.array(v, dtype=float)
            rbv = np.array(rb, dtype=float)
            if attr == "position":
                rbv = rbv.reshape(a.shape) if rbv.size == a.size else rbv
            if rbv.shape != a.shape and not (attr == "pixel" and rbv.size == a.size):
                problems.append((f"readback-shape-{rbv.shape}-vs-{a.shape}", via))
            elif not np.array_equal(rbv.reshape(a.shape), a):
                problems.append(("readback-differs", via))
            if isinstance(rb, np.ndarray) and rb.dtype != float:
                problems.append((f"stored-dtype-{rb.dtype}", via))
            if isinstance(caller, np.ndarray):
                store = getattr(o, "_" + attr, rb)
                if isinstance(store, np.ndarray) and np.shares_memory(store, caller):
                    problems.append(("stored-array-shares-memory-with-input", via))
                if caller.size and caller.dtype == float:
                    caller[...] = caller + 5.0
                    rb2 = np.array(getattr(o, attr), dtype=float)
                    if not np.array_equal(rb2.reshape(a.shape), a):
                        problems.append(("later-mutation-of-input-visible", via))
        # the accepted object must work (or ask for missing input)
        for fname in ("getB", "getH"):
            try:
                with common.time_limit(20):
                    if cls == "Collection":
                        B = getattr(o, fname)()          # sources and sensors are both inside
                    elif cls != "Sensor":
                        B = getattr(o, fname)([(7.0, 8.0, 9.0), (-3.0, 2.0, 5.0)])
                    else:
                        B = getattr(o, fname)(C0())
                if not np.all(np.isfinite(B)):
                    problems.append((f"{fname}-nonfinite", via))
                if cls not in ("Sensor", "Collection") and np.shape(B)[-2:] != (2, 3):
                    problems.append((f"{fname}-wrong-shape-{np.shape(B)}", via))
            except MagpylibMissingInput:
                if v is not None and attr != "field_func":
                    problems.append((f"{fname}-missing-input-for-set-attribute", via))
            except Exception as e:
                problems.append((f"accepted-object-fails-later-{type(e).__name__}", via))
    if valid and results.get("ctor") == "ok" and results.get("setter") == "ok":
        pass
    if (cls, attr) not in CTOR_ONLY and len({results.get("ctor"), results.get("setter")}) > 1:
        problems.append((f"ctor-{results.get('ctor')}-but-setter-{results.get('setter')}".replace(":", "-"), "both"))
    return {"valid": bool(valid), "results": results, "problems": problems}


# ------------------------------------------------------------------ incomplete objects in batches
MANDATORY = ("dimension", "diameter", "vertices", "polarization", "current", "moment", "field_func")
BATCH_FORMS = ["alone", "first", "last", "third", "after_other_class", "collection", "sensor_star", "two_incomplete"]


def incomplete_task(task):
    """None is the documented value for 'not yet set': an object with a mandatory input still unset must make
    every field computation it takes part in raise MagpylibMissingInput - never an internal error - wherever
    it stands in the batch."""
    import magpylib as magpy
    from magpylib._src.exceptions import MagpylibMissingInput

    cls, attr, how = task[1:]
    C, base = classes()[cls]
    other_cls = "Dipole" if cls != "Dipole" else "Circle"
    OC, obase = classes()[other_cls]
    problems, n = [], 0

    def complete(shift=0.0):
        return C(position=(shift, 0, 0), **base)

    def incomplete():
        if how == "ctor_omitted":
            return C(**{k: v for k, v in base.items() if k != attr})
        if how == "ctor_none":
            return C(**dict(base, **{attr: None}))
        o = C(**base)
        setattr(o, attr, None)
        return o

    obs = [(7.0, 8.0, 9.0), (-3.0, 2.0, 5.0)]
    for form in BATCH_FORMS:
        for fname in ("getB", "getH"):
            n += 1
            try:
                I = incomplete()
                if form == "alone":
                    call = lambda: getattr(I, fname)(obs)
                elif form == "first":
                    call = lambda: getattr(magpy, fname)([I, complete(1)], obs)
                elif form == "last":
                    call = lambda: getattr(magpy, fname)([complete(1), I], obs)
                elif form == "third":
                    call = lambda: getattr(magpy, fname)([complete(1), complete(2), I], obs, sumup=True)
                elif form == "after_other_class":
                    call = lambda: getattr(magpy, fname)([complete(1), OC(**obase), I], obs)
                elif form == "collection":
                    col = magpy.Collection(complete(1), I)
                    call = lambda: getattr(col, fname)(obs)
                elif form == "sensor_star":
                    sens = magpy.Sensor(position=(7, 8, 9))
                    call = lambda: getattr(sens, fname)(complete(1), I)
                elif form == "two_incomplete":
                    I2 = incomplete()
                    call = lambda: getattr(magpy, fname)([complete(1), I, I2], obs)
                call()
                problems.append((f"incomplete-object-computed-{form}", fname))
            except MagpylibMissingInput:
                pass
            except Exception as e:
                problems.append((f"incomplete-object-internal-error-{type(e).__name__}-{form}", fname))
    return {"valid": True, "results": {}, "problems": problems, "n": n}


def C0():
    import magpylib as magpy

    return magpy.magnet.Cuboid(dimension=(1, 1, 1), polarization=(0, 0, 1))


def work(task):
    try:
        if task[0] == "incomplete":
            return incomplete_task(task)
        return check_one(task)
    except Exception as e:
        import traceback

        return {"harness": f"{type(e).__name__}: {e} {traceback.format_exc()[-300:]}", "problems": []}


def run(tier, seed):
    common.bind_repo()
    G = grammar("thorough")
    tasks = [(cls, attr, n, v) for (cls, attr) in SPEC for n, v in G]
    itasks = [("incomplete", cls, attr, how) for cls, (C, base) in classes().items() if cls != "Sensor"
              for attr in base if attr in MANDATORY and (cls, attr) not in CTOR_ONLY
              for how in ("ctor_omitted", "ctor_none", "setter_none")]
    ires = common.pmap(work, itasks)
    res = common.pmap(work, tasks)
    viols, harness = [], []
    nacc = nrej = namb = 0
    ninc = 0
    for t, r in zip(itasks, ires):
        if r.get("harness"):
            harness.append(f"{t}: {r['harness']}")
            continue
        ninc += r["n"]
        for kind, fname in r["problems"]:
            viols.append({"key": f"C17|{t[1]}.{t[2]}|{kind}", "what": f"{t[1]} with {t[2]} unset ({t[3]}), {fname}: {kind}",
                          "case": {"incomplete": list(t)}, "observed": [kind, fname]})
    for (cls, attr, n, v), r in zip(tasks, res):
        if r.get("harness"):
            harness.append(f"{cls}.{attr} {n}: {r['harness']}")
            continue
        if r.get("ambiguous"):
            namb += 1
            continue
        nacc += r["valid"]
        nrej += not r["valid"]
        for kind, via in r["problems"]:
            vclass = n.split(":")[0]
            viols.append({"key": f"C17|{cls}.{attr}|{kind}|{vclass}",
                          "what": f"{cls}.{attr} = {n} ({_short(v)}) via {via}: {kind}",
                          "case": {"cls": cls, "attr": attr, "vname": n, "tier": tier}, "observed": [kind, via]})
    cov = {
        "evaluations": 3 * (len(tasks) - namb) + ninc, "distinct_nontrivial": len(tasks) - namb + ninc,
        "incomplete_object_batch_calls": ninc, "batch_forms": BATCH_FORMS,
        "rule": "one evaluation = one assignment (constructor | setter | copy kwarg) of one grammar value to one attribute; "
                "every (attribute, value) pair is distinct; non-trivial = not excluded as ambiguous by the spec table",
        "samples": [{"cls": t[0], "attr": t[1], "value": t[2]} for t in (tasks[3], tasks[len(tasks) // 2], tasks[-7])],
        "exhaustive": True, "grammar_size": len(G), "attributes": len(SPEC), "spec_valid": nacc, "spec_invalid": nrej,
        "excluded_ambiguous": namb,
        "excluded_ambiguous_rule": "zero sizes, r1 == r2, phi1 == phi2 (documentation does not settle them); numeric strings, "
                                   "bools, NaN/inf and None entries inside sequences are not generated",
    }
    if nacc < 50 or nrej < 500:
        harness.append("vacuous: too few accepted or rejected values")
    return {"coverage": cov, "violations": viols, "harness_errors": harness[:5],
            "assumptions": ["the specification table in mc/props/C17.py is the reading of the documented formats"]}


def _short(v):
    s = repr(v)
    return s if len(s) < 70 else s[:67] + "..."


def replay(case):
    if "incomplete" in case:
        r = work(tuple(case["incomplete"]))
        return {"violated": bool(r["problems"]), "observed": r["problems"]}
    G = dict(grammar(case.get("tier", "thorough")))
    r = work((case["cls"], case["attr"], case["vname"], G[case["vname"]]))
    return {"violated": bool(r["problems"]), "observed": r["problems"]}
