"""C18 - copy() yields an equal, fully independent, parentless object.

History explorer: (object kind x parent x style state x path length) x copy(**kw) x one mutation
from the mutation alphabet x side (original | copy). Checks right after copy (equality, parentless,
consistent forest inside the copy, original untouched, identity walk: no shared mutable object)
and after the mutation (the other side's deep signature is byte-identical).
"""
import json

import numpy as np

from mc import common

LEVEL = "model_checking"

KINDS = ["Cuboid", "Cylinder", "CylinderSegment", "Sphere", "Tetrahedron", "TriangularMesh", "Circle", "Polyline",
         "Dipole", "Triangle", "CustomSource", "Sensor", "CollFlat", "CollNested", "CollSens"]
STYLE_STATES = ["untouched", "kwargs_pending", "materialised"]
PARENTS = [False, True]
PLENS = [1, 3]


def custom_ff(field, observers):
    return np.array(observers) * 2.0


def path(n):
    from scipy.spatial.transform import Rotation as R

    if n == 1:
        return dict(position=(0.1, 0.2, 0.3), orientation=R.from_rotvec((0.1, 0.2, 0.3)))
    return dict(position=[(0.1 + 0.5 * i, 0.2, 0.3 - 0.1 * i) for i in range(n)],
                orientation=R.from_rotvec([(0.1 * i, 0.2, 0.3) for i in range(n)]))


def mk(kind, plen, style_state):
    import magpylib as magpy

    kw = path(plen)
    if style_state == "kwargs_pending":
        kw.update(style_label="lbl", style_color="red", style_opacity=0.5)
        if kind != "Dipole":  # Dipole(style={...}) is rejected on the unchanged tree (reported under C20)
            kw.update(style={"path": {"line": {"width": 2}}})
    pol = (0.1, 0.2, 0.3)
    if kind == "Cuboid":
        o = magpy.magnet.Cuboid(dimension=(1, 2, 3), polarization=pol, **kw)
    elif kind == "Cylinder":
        o = magpy.magnet.Cylinder(dimension=(1, 2), polarization=pol, **kw)
    elif kind == "CylinderSegment":
        o = magpy.magnet.CylinderSegment(dimension=(1, 2, 1, 10, 100), polarization=pol, **kw)
    elif kind == "Sphere":
        o = magpy.magnet.Sphere(diameter=1.5, polarization=pol, **kw)
    elif kind == "Tetrahedron":
        o = magpy.magnet.Tetrahedron(vertices=[(0, 0, 0), (1, 0, 0), (0, 1, 0), (0, 0, 1)], polarization=pol, **kw)
    elif kind == "TriangularMesh":
        o = magpy.magnet.TriangularMesh(vertices=[(0, 0, 0), (1, 0, 0), (0, 1, 0), (0, 0, 1)],
                                        faces=[(0, 1, 2), (0, 1, 3), (0, 2, 3), (1, 2, 3)], polarization=pol, **kw)
    elif kind == "Circle":
        o = magpy.current.Circle(diameter=2, current=1.5, **kw)
    elif kind == "Polyline":
        o = magpy.current.Polyline(vertices=[(0, 0, 0), (1, 1, 0), (1, 2, 3)], current=2.0, **kw)
    elif kind == "Dipole":
        o = magpy.misc.Dipole(moment=(1, 2, 3), **kw)
    elif kind == "Triangle":
        o = magpy.misc.Triangle(vertices=[(0, 0, 0), (1, 0, 0), (0, 1, 0)], polarization=pol, **kw)
    elif kind == "CustomSource":
        o = magpy.misc.CustomSource(field_func=custom_ff, **kw)
    elif kind == "Sensor":
        o = magpy.Sensor(pixel=[(0, 0, 0), (0.1, 0, 0)], handedness="left", **kw)
    elif kind == "CollFlat":
        a = magpy.magnet.Sphere(diameter=1, polarization=pol, position=(1, 0, 0))
        b = magpy.current.Circle(diameter=1, current=1, position=(-1, 0, 0), style_color="blue")
        o = magpy.Collection(a, b, **kw)
    elif kind == "CollNested":
        a = magpy.magnet.Sphere(diameter=1, polarization=pol, position=(1, 0, 0))
        b = magpy.magnet.Cuboid(dimension=(1, 1, 1), polarization=pol, position=(-1, 0, 0))
        inner = magpy.Collection(b, position=(0, 1, 0), style_label="inner")
        o = magpy.Collection(a, inner, **kw)
    elif kind == "CollSens":
        a = magpy.magnet.Sphere(diameter=1, polarization=pol, position=(1, 0, 0))
        s = magpy.Sensor(position=(0, 0, 2), pixel=[(0, 0, 0), (0, 0.1, 0)])
        inner = magpy.Collection(s, position=(0, 1, 0))
        o = magpy.Collection(a, inner, **kw)
    else:
        raise AssertionError(kind)
    if style_state == "materialised":
        o.style.label = "mat"
        o.style.color = "green"
        o.style.update(opacity=0.7)
        o.style.model3d.add_trace(backend="generic", constructor="Scatter3d",
                                  kwargs={"x": [0, 1], "y": [0, 1], "z": [0, 1]}, show=True)
        o.style.model3d.add_trace(backend="matplotlib", constructor="plot",
                                  args=(np.array([0.0, 1.0]), np.array([0.0, 1.0]), np.array([0.0, 2.0])),
                                  kwargs={"ls": "--", "c": np.array([1.0, 0.0, 0.0])}, show=False)
    return o


# ------------------------------------------------------------------ deep signature / identity walk
def is_magpy_obj(x):
    return hasattr(x, "_position") or hasattr(x, "_children")


def deep_sig(x, _depth=0):
    """structural, value-based signature; parents are represented by presence only"""
    from scipy.spatial.transform import Rotation as R

    from magpylib._src.defaults.defaults_utility import MagicProperties

    if _depth > 12:
        return "DEPTH"
    if x is None or isinstance(x, (bool, int, float, str, complex)):
        return x if not isinstance(x, float) else float.hex(x)
    if isinstance(x, np.ndarray):
        return ("nd", x.dtype.str, x.shape, x.tobytes().hex())
    if isinstance(x, np.generic):
        return ("ng", repr(x))
    if isinstance(x, R):
        return ("rot", bool(x.single), x.as_quat().tobytes().hex())
    if isinstance(x, (list, tuple)):
        return (type(x).__name__, [deep_sig(v, _depth + 1) for v in x])
    if isinstance(x, dict):
        return ("dict", [(repr(k), deep_sig(v, _depth + 1)) for k, v in sorted(x.items(), key=lambda kv: repr(kv[0]))])
    if callable(x) and not hasattr(x, "__dict__"):
        return ("callable", getattr(x, "__name__", repr(type(x))))
    if hasattr(x, "__dict__"):
        items = []
        for k, v in sorted(vars(x).items()):
            if k == "_parent":
                items.append((k, None if v is None else "PARENT"))
            elif k in ("_style",) and v is None:
                items.append((k, None))
            else:
                items.append((k, deep_sig(v, _depth + 1)))
        return ("obj", type(x).__name__, items)
    return ("other", repr(type(x)))


def _jd(x):
    if hasattr(x, "as_dict"):
        return x.as_dict()
    if callable(x):
        return getattr(x, "__qualname__", "callable")
    if isinstance(x, np.ndarray):
        return x.tolist()
    return repr(x)


def public_sig(o):
    """what the user can read: used for 'equal' (label excluded)"""
    from scipy.spatial.transform import Rotation as R

    d = {"class": type(o).__name__, "pos": np.array(o._position).tolist(), "ori": o._orientation.as_matrix().round(14).tolist()}
    for a in ("dimension", "diameter", "vertices", "faces", "polarization", "magnetization", "current", "moment", "pixel",
              "handedness", "status_open", "status_disconnected", "status_reoriented", "status_selfintersecting"):
        if hasattr(o, a):
            v = getattr(o, a)
            d[a] = None if v is None else (np.asarray(v).tolist() if not isinstance(v, (str, bool)) else v)
    st = o.style.as_dict()
    st.pop("label", None)
    d["style"] = json.dumps(st, sort_keys=True, default=_jd)
    if hasattr(o, "_children"):
        d["children"] = [public_sig(c) for c in o._children]
    return d


def reachable_mutables(x, skip_parent=True):
    """ids (or buffer addresses) of every mutable object reachable from x"""
    from scipy.spatial.transform import Rotation as R

    out = {}
    seen = set()
    stack = [("", x)]
    while stack:
        pth, v = stack.pop()
        if id(v) in seen:
            continue
        seen.add(id(v))
        if v is None or isinstance(v, (bool, int, float, str, complex, np.generic, type)):
            continue
        if isinstance(v, np.ndarray):
            base = v
            while isinstance(base.base, np.ndarray):
                base = base.base
            out[("buf", base.__array_interface__["data"][0])] = pth
            continue
        if isinstance(v, R):
            out[("obj", id(v))] = pth
            continue
        if isinstance(v, (list, tuple, set, frozenset)):
            if not isinstance(v, (tuple, frozenset)):
                out[("obj", id(v))] = pth
            for i, e in enumerate(v):
                stack.append((f"{pth}[{i}]", e))
            continue
        if isinstance(v, dict):
            out[("obj", id(v))] = pth
            for k, e in v.items():
                stack.append((f"{pth}[{k!r}]", e))
            continue
        if callable(v) and not hasattr(v, "__self__") and not is_magpy_obj(v) and type(v).__name__ in ("function", "builtin_function_or_method"):
            continue  # plain functions are shared by design (deepcopy returns the same function)
        if hasattr(v, "__dict__"):
            out[("obj", id(v))] = pth
            for k, e in vars(v).items():
                if k == "_parent" and skip_parent and pth == "":
                    continue
                stack.append((f"{pth}.{k}", e))
    return out


# ------------------------------------------------------------------ copy kwargs
def copy_kwargs(kind, name, orig):
    """returns (kwargs, expectations {attr: value}, caller arrays)"""
    from scipy.spatial.transform import Rotation as R

    if name == "none":
        return {}, {}, []
    if name == "position":
        return {"position": (7, 8, 9)}, {"position": (7, 8, 9)}, []
    if name == "position_ndarray":
        a = np.array([(7.0, 8, 9), (1, 1, 1)])
        return {"position": a}, {"position": a.copy()}, [a]
    if name == "position_from_getter":
        a = orig.position
        return {"position": a}, {"position": np.array(a)}, []
    if name == "orientation":
        return {"orientation": R.from_rotvec((0.3, 0.2, 0.1))}, {}, []
    if name == "orientation_none":          # the documented value for the unit rotation
        return {"orientation": None}, {}, []
    if name == "position+orientation":
        return {"position": (7, 8, 9), "orientation": R.from_rotvec((0.3, 0.2, 0.1))}, {"position": (7, 8, 9)}, []
    if name == "orientation+position":       # the same pair, keywords in the other order
        return {"orientation": R.from_rotvec((0.3, 0.2, 0.1)), "position": (7, 8, 9)}, {"position": (7, 8, 9)}, []
    if name == "pospath+oripath":
        a = np.array([(7.0, 8, 9), (1, 1, 1)])
        return {"position": a, "orientation": R.from_rotvec([(0.3, 0.2, 0.1), (0, 0, 0.4)])}, {"position": a.copy()}, [a]
    if name == "excitation_ndarray":
        for attr, val in (("polarization", np.array((0.5, 0.6, 0.7))), ("current", None), ("moment", np.array((3.0, 2, 1)))):
            if hasattr(orig, attr) and val is not None:
                return {attr: val}, {attr: val.copy()}, [val]
        return None
    if name == "geometry_ndarray":
        for attr in ("dimension", "vertices", "pixel"):
            if hasattr(orig, attr) and getattr(orig, attr) is not None and kind != "TriangularMesh":
                val = np.array(getattr(orig, attr), float) * 1.5
                return {attr: val}, {attr: val.copy()}, [val]
        if hasattr(orig, "diameter"):
            return {"diameter": 3.3}, {"diameter": 3.3}, []
        return None
    if name == "geometry_from_getter":
        for attr in ("vertices", "pixel", "dimension", "polarization", "moment"):
            if hasattr(orig, attr) and getattr(orig, attr) is not None and kind != "TriangularMesh":
                return {attr: getattr(orig, attr)}, {attr: np.array(getattr(orig, attr))}, []
        return None
    if name == "style_label":
        return {"style_label": "given"}, {}, []
    if name == "style_color":
        return {"style_color": "yellow"}, {}, []
    if name == "style_dict":
        d = {"opacity": 0.25, "path": {"line": {"width": 3}}}
        return {"style": d}, {}, [d]
    if name in ("parent_empty", "parent_nonempty"):   # the copy is put into another collection (an empty one is falsy!)
        import magpylib as magpy

        tgt = magpy.Collection() if name == "parent_empty" else magpy.Collection(magpy.Sensor())
        return {"parent": tgt, "position": (7, 8, 9)}, {"position": (7, 8, 9)}, []
    if name == "bad_with_parent":   # the copy is asked into another collection AND carries a keyword that is rejected
        import magpylib as magpy

        tgt = magpy.Collection(magpy.Sensor())
        return {"parent": tgt, "position": "bad"}, {}, []
    if name == "empty_label":       # an object whose label is the empty string
        orig.style.label = ""
        return {}, {}, []
    if name in REJECTED_KW:
        return dict(REJECTED_KW[name]), {}, []
    if name == "bad_uncopyable":  # something inside the object cannot be deep-copied: copy() raises
        orig.style.model3d.add_trace(backend="generic", constructor="Scatter3d", kwargs={"x": (i for i in range(3))}, show=False)
        return {}, {}, []
    raise AssertionError(name)


REJECTED_KW = {"bad_position": {"position": (1, 2)}, "bad_orientation": {"orientation": "x"},
               "bad_style": {"style_nonexistent": 1}, "bad_late": {"style_label": "ok", "position": "bad"}}


COPY_KW = ["none", "position", "position_ndarray", "position_from_getter", "orientation", "orientation_none", "position+orientation",
           "orientation+position", "pospath+oripath", "excitation_ndarray",
           "geometry_ndarray", "geometry_from_getter", "style_label", "style_color", "style_dict", "parent_empty", "parent_nonempty", "empty_label"]
COPY_KW_REJECTED = list(REJECTED_KW) + ["bad_uncopyable", "bad_with_parent"]


# ------------------------------------------------------------------ mutations
def _bump_arrays(trace):
    for a in list(trace.args or ()) + list(trace.kwargs.values() if isinstance(trace.kwargs, dict) else ()):
        if isinstance(a, np.ndarray):
            a += 1.0


def mutations(kind):
    """name -> callable(obj). Applied to one side; the other side must not change."""
    import magpylib as magpy
    from scipy.spatial.transform import Rotation as R

    def inplace(attr):
        def f(o):
            v = getattr(o, attr)
            if isinstance(v, np.ndarray) and v.size:
                v[...] = v + 1.0
        return f

    def inplace_private(attr):
        def f(o):
            v = getattr(o, attr, None)
            if isinstance(v, np.ndarray) and v.size:
                v[...] = v + 1
        return f

    m = {
        "set_position": lambda o: setattr(o, "position", (9, 9, 9)),
        "set_position_path": lambda o: setattr(o, "position", [(9, 9, 9), (8, 8, 8)]),
        "set_orientation": lambda o: setattr(o, "orientation", R.from_rotvec((1, 0, 0))),
        "move_scalar": lambda o: o.move((1, 1, 1)),
        "move_vector": lambda o: o.move([(1, 1, 1), (2, 2, 2)]),
        "move_scalar_start": lambda o: o.move((1, 1, 1), start=-1),
        "rotate_scalar": lambda o: o.rotate_from_angax(30, "z", anchor=0),
        "rotate_vector": lambda o: o.rotate_from_angax([10, 20], "x"),
        "reset_path": lambda o: o.reset_path(),
        "inplace_position_getter": inplace("position"),
        "inplace__position": inplace_private("_position"),
        "style_label": lambda o: setattr(o.style, "label", "mutated"),
        "style_color": lambda o: setattr(o.style, "color", "orange"),
        "style_update": lambda o: o.style.update(opacity=0.11),
        "style_nested": lambda o: o.style.update({"path": {"line": {"width": 7}}}),
        "style_underscore": lambda o: o.style.update(path_marker_size=9),
        "style_setter_dict": lambda o: setattr(o, "style", {"description": {"text": "abc"}}),
        "style_model3d_add": lambda o: o.style.model3d.add_trace(backend="generic", constructor="Scatter3d", kwargs={"x": [5]}),
        "style_model3d_edit": lambda o: [setattr(t, "show", not t.show) or t.kwargs.update(x=[42]) if isinstance(t.kwargs, dict) else None
                                          for t in o.style.model3d.data],
        "style_model3d_arrays_inplace": lambda o: [_bump_arrays(t) for t in o.style.model3d.data],
        "second_copy": lambda o: o.copy(position=(3, 3, 3)).move((1, 1, 1)),
        "parent_new": lambda o: magpy.Collection(o, override_parent=True),
        "parent_none": lambda o: setattr(o, "parent", None),
    }
    for attr in ("dimension", "vertices", "polarization", "magnetization", "moment", "pixel", "faces"):
        m["inplace_" + attr] = inplace(attr)
    m.update({
        "set_polarization": lambda o: setattr(o, "polarization", (3, 2, 1)) if hasattr(o, "polarization") else None,
        "set_magnetization": lambda o: setattr(o, "magnetization", (3e5, 2e5, 1e5)) if hasattr(o, "magnetization") else None,
        "set_current": lambda o: setattr(o, "current", 77.0) if hasattr(o, "current") else None,
        "set_moment": lambda o: setattr(o, "moment", (7, 7, 7)) if hasattr(o, "moment") else None,
        "set_dimension": lambda o: setattr(o, "dimension", np.array(o.dimension) * 2) if getattr(o, "dimension", None) is not None else None,
        "set_diameter": lambda o: setattr(o, "diameter", 4.4) if hasattr(o, "diameter") else None,
        "set_vertices": lambda o: setattr(o, "vertices", np.array(o.vertices) * 2) if (hasattr(o, "vertices") and type(o).__name__ != "TriangularMesh") else None,
        "set_pixel": lambda o: setattr(o, "pixel", (1, 2, 3)) if hasattr(o, "pixel") else None,
        "set_handedness": lambda o: setattr(o, "handedness", "right") if hasattr(o, "handedness") else None,
    })
    if kind.startswith("Coll"):
        m.update({
            "coll_add": lambda o: o.add(magpy.Sensor()),
            "coll_remove_first": lambda o: o.remove(o.children[0]),
            "coll_child_parent_none": lambda o: setattr(o.children[0], "parent", None),
            "coll_children_set": lambda o: setattr(o, "children", [magpy.Sensor()]),
            "coll_child_move": lambda o: o.children[0].move((1, 2, 3)),
            "coll_child_style": lambda o: setattr(o.children[0].style, "color", "pink"),
            "coll_child_inplace": lambda o: inplace_private("_position")(o.children[-1]),
            "coll_grandchild_move": lambda o: o.children_all[-1].move((4, 4, 4)),
            "coll_grandchild_excitation": lambda o: [setattr(c, "polarization", (9, 9, 9)) for c in o.sources_all if hasattr(c, "polarization")],
            "coll_steal_child": lambda o: magpy.Collection().add(o.children[-1], override_parent=True),
            "coll_set_children_styles": lambda o: o.set_children_styles(opacity=0.33),
        })
    return m


def getB_of(o):
    import magpylib as magpy

    obs = [(2.5, 1.5, 3.5), (-3, 2, 1)]
    try:
        if isinstance(o, magpy.Sensor):
            src = magpy.magnet.Cuboid(dimension=(1, 1, 1), polarization=(1, 2, 3))
            return o.getB(src)
        if isinstance(o, magpy.Collection) and o.sensors_all and o.sources_all:
            return o.getB()
        if isinstance(o, magpy.Collection) and o.sensors_all:
            return None
        return o.getB(obs)
    except Exception as e:
        return f"EXC {type(e).__name__}"


def forest_ok(o):
    from mc.props import C11

    return C11.invariant({"root": o}, check_describe=False)


# ------------------------------------------------------------------ one case
def materialise(*roots):
    """touch .style of every magpylib object below the roots (lazy creation is not a change)"""
    seen = set()
    stack = [r for r in roots if r is not None]
    while stack:
        o = stack.pop()
        if id(o) in seen:
            continue
        seen.add(id(o))
        _ = o.style
        stack.extend(getattr(o, "_children", []))


def make_pair(kind, plen, sstate, has_parent):
    import magpylib as magpy

    o = mk(kind, plen, sstate)
    parent = None
    if has_parent:
        sib = magpy.Sensor()
        parent = magpy.Collection(o, sib, position=(1, 1, 1))
    return o, parent


def run_case(case):
    kind, plen, sstate, has_parent, kwname, mutname, side = (case[k] for k in
                                                              ("kind", "plen", "style", "parent", "kw", "mut", "side"))
    orig, parent = make_pair(kind, plen, sstate, has_parent)
    # an identical twin provides the reference signatures, so that the original is not even read before copy()
    twin, twin_parent = make_pair(kind, plen, sstate, has_parent)
    ck = copy_kwargs(kind, kwname, orig)
    if ck is None:
        return {"skipped": True, "problems": []}
    kw, expect, arrs = ck
    if kwname in ("bad_uncopyable", "empty_label"):
        copy_kwargs(kind, kwname, twin)
    materialise(twin, twin_parent)
    sig_twin = deep_sig(twin)
    sig_twin_parent = deep_sig(twin_parent) if twin_parent is not None else None
    pub0 = public_sig(twin) if kwname == "none" else None
    B0 = getB_of(twin) if kwname == "none" else None
    label0 = twin.style.label
    arrs0 = [deep_sig(a) for a in arrs]
    problems = []
    if kwname in COPY_KW_REJECTED:
        # a copy() that raises must leave the original, its parent link and its parent exactly as they were
        try:
            orig.copy(**kw)
            return {"problems": ["copy with an invalid keyword / uncopyable content returned normally"], "stage": "copy"}
        except Exception as e:
            outcome = type(e).__name__
        if parent is not None and (orig._parent is not parent or sum(1 for c in parent._children if c is orig) != 1):
            problems.append("failed copy broke the original's parent link")
        if "parent" in kw:
            tgt = kw["parent"]
            if len(tgt._children) != 1 or forest_ok(tgt):
                problems.append(f"failed copy left something in the requested parent: {len(tgt._children)} children instead of 1")
        materialise(orig, parent)
        if deep_sig(orig) != sig_twin:
            problems.append("failed copy changed the original")
        if parent is not None and deep_sig(parent) != sig_twin_parent:
            problems.append("failed copy changed the original's parent")
        return {"problems": problems, "stage": "copy", "mut_outcome": "rejected-copy:" + outcome}
    try:
        cp = orig.copy(**kw)
    except Exception as e:
        return {"problems": [f"copy raised {type(e).__name__}: {e}"[:200]], "stage": "copy"}
    # --- immediately after copy
    if type(cp) is not type(orig):
        problems.append("copy has different class")
    if "parent" in kw:
        tgt = kw["parent"]
        if cp._parent is not tgt or not tgt._children or tgt._children[-1] is not cp:
            problems.append("copy(parent=C) is not the last child of C")
        fe2 = forest_ok(tgt)
        if fe2:
            problems.append(f"requested parent inconsistent: {fe2}")
    elif cp._parent is not None or cp.parent is not None:
        problems.append("copy has a parent")
    if parent is not None:
        if orig._parent is not parent or sum(1 for c in parent._children if c is orig) != 1:
            problems.append("copy broke the original's parent link")
        if any(c is cp for c in parent._children):
            problems.append("copy was added to the original's parent")
    if [deep_sig(a) for a in arrs] != arrs0:
        problems.append("copy changed a caller array")
    fe = forest_ok(cp)
    if fe:
        problems.append(f"copy subtree inconsistent: {fe}")
    # identity walk (reads vars() only)
    ro = reachable_mutables(orig)
    if parent is not None:
        ro.update(reachable_mutables(parent))
    rc = reachable_mutables(cp)
    shared = sorted({f"{rc[k]} ~ {ro[k]}" for k in rc if k in ro})
    if shared:
        problems.append(f"shared mutable objects: {shared[:3]}")
    for a in arrs:
        if isinstance(a, np.ndarray):
            base = a
            while isinstance(base.base, np.ndarray):
                base = base.base
            k = ("buf", base.__array_interface__["data"][0])
            if k in rc:
                problems.append(f"copy aliases caller array at {rc[k]}")
    label_cp_raw = None if getattr(cp, "_style", None) is None and not cp._style_kwargs else cp.style.label
    materialise(orig, parent, cp)
    if deep_sig(orig) != sig_twin:
        problems.append("copy changed the original")
    if parent is not None and deep_sig(parent) != sig_twin_parent:
        problems.append("copy changed the original's parent")
    if kwname == "none":
        if public_sig(cp) != pub0:
            problems.append("copy not equal to original")
        Bc = getB_of(cp)
        same = (Bc is None and B0 is None) or (isinstance(Bc, str) and Bc == B0) or (
            isinstance(Bc, np.ndarray) and isinstance(B0, np.ndarray) and np.array_equal(Bc, B0))
        if not same:
            problems.append("copy gives a different field")
        if sstate != "untouched":
            if label_cp_raw == label0 or not isinstance(label_cp_raw, str) or not label_cp_raw.startswith(label0):
                problems.append(f"label not iterated: {label0!r} -> {label_cp_raw!r}")
    for attr, val in expect.items():
        got = getattr(cp, attr)
        if not np.array_equal(np.array(got, float), np.array(val, float)):
            problems.append(f"copy kwarg {attr} not applied")
    # differential oracle for attribute overrides: copy(**kw) is copy() followed by the assignments, in keyword order
    attr_kw = {k: v for k, v in kw.items() if k != "parent" and k != "style" and not k.startswith("style_")}
    if attr_kw and not problems:
        try:
            ref = twin.copy()
            for k, v in attr_kw.items():
                setattr(ref, k, v.copy() if isinstance(v, np.ndarray) else v)
        except Exception as e:
            ref = None
        if ref is not None:
            materialise(ref)
            pr, pc = public_sig(ref), public_sig(cp)
            pr.pop("style", None), pc.pop("style", None)

            def strip(d):
                for ch in d.get("children", []):
                    ch.pop("style", None)
                    strip(ch)
                return d

            if strip(pr) != strip(pc):
                diff = [k for k in pr if pr[k] != pc.get(k)]
                problems.append(f"copy({', '.join(attr_kw)}) differs from copy() followed by the assignments in: {diff[:4]}")
            else:
                Br, Bc2 = getB_of(ref), getB_of(cp)
                if isinstance(Br, np.ndarray) and (not isinstance(Bc2, np.ndarray) or not np.array_equal(Br, Bc2)):
                    problems.append(f"copy({', '.join(attr_kw)}) gives another field than copy() followed by the assignments")
    if problems:
        return {"problems": problems, "stage": "copy"}
    # --- mutation on one side
    muts = mutations(kind)
    f = muts[mutname]
    a, b = (orig, cp) if side == "orig" else (cp, orig)
    sig_b0 = deep_sig(b)
    sig_parent1 = deep_sig(parent) if (parent is not None and side == "copy") else None
    arrs1 = [deep_sig(x) for x in arrs]
    try:
        f(a)
        mout = "ok"
    except Exception as e:
        mout = type(e).__name__
    materialise(b, parent)
    if deep_sig(b) != sig_b0:
        problems.append(f"mutation {mutname} on {side} changed the other side")
    if sig_parent1 is not None and deep_sig(parent) != sig_parent1:
        problems.append(f"mutation {mutname} on copy changed the original's parent")
    if [deep_sig(x) for x in arrs] != arrs1 and not mutname.startswith("inplace"):
        problems.append(f"mutation {mutname} on {side} changed the caller's array")
    return {"problems": problems, "stage": "mutation", "mut_outcome": mout}


def work(case):
    try:
        return run_case(case)
    except Exception as e:
        import traceback

        return {"problems": [], "harness": f"{type(e).__name__}: {e} :: {traceback.format_exc()[-400:]}"}


def enumerate_cases(tier):
    cases = []
    plens = PLENS
    for kind in KINDS:
        mutnames = list(mutations(kind))
        for plen in plens:
            for sstate in STYLE_STATES:
                for par in PARENTS:
                    for kw in COPY_KW_REJECTED:
                        if kw == "bad_uncopyable" and sstate != "materialised":
                            continue
                        cases.append({"kind": kind, "plen": plen, "style": sstate, "parent": par, "kw": kw,
                                      "mut": "none", "side": "orig"})
                    for kw in COPY_KW:
                        full = tier == "thorough" or (
                            kw in ("none", "position_ndarray", "parent_empty", "position_from_getter", "geometry_from_getter", "style_dict", "pospath+oripath")
                            and ((plen == 1 and not par) or (plen == 3 and par and sstate == "materialised" and kw == "none")))
                        muts = mutnames if full else ["move_scalar", "inplace__position", "style_update"]
                        if tier == "quick" and plen == 3 and sstate == "untouched" and kw != "none":
                            continue
                        for mut in muts:
                            for side in ("orig", "copy"):
                                cases.append({"kind": kind, "plen": plen, "style": sstate, "parent": par, "kw": kw,
                                              "mut": mut, "side": side})
    return cases


def run(tier, seed):
    cases = enumerate_cases(tier)
    res = common.pmap(work, cases)
    viols, harness = [], []
    states = set()
    skipped = 0
    mouts = {}
    for c, r in zip(cases, res):
        if r.get("harness"):
            harness.append(f"{c}: {r['harness']}")
            continue
        if r.get("skipped"):
            skipped += 1
            continue
        states.add((c["kind"], c["plen"], c["style"], c["parent"], c["kw"]))
        mouts[r.get("mut_outcome", "n/a")] = mouts.get(r.get("mut_outcome", "n/a"), 0) + 1
        if r["problems"]:
            p0 = r["problems"][0]
            tag = p0.split(":")[0] if r.get("stage") == "copy" else f"mutation|{c['mut']}|{c['side']}"
            viols.append({"key": f"C18|{c['kind']}|kw={c['kw']}|{tag}"[:160],
                          "what": f"{c}: {r['problems']}", "case": c, "observed": r["problems"]})
    harness = harness[:5] + ([f"... {len(harness)} harness errors"] if len(harness) > 5 else [])
    n = len(cases) - skipped
    cov = {
        "states": len(states), "transitions": n, "traces_validated_against_impl": n,
        "samples": [cases[0], cases[len(cases) // 3], cases[-1]],
        "exhaustive": True,
        "skipped_inapplicable": skipped,
        "mutation_outcomes": mouts,
        "alphabets": {"kinds": KINDS, "copy_kwargs": COPY_KW, "style_states": STYLE_STATES,
                      "mutations_leaf": len(mutations("Cuboid")), "mutations_collection": len(mutations("CollFlat"))},
        "rule": "state = (object kind, path length, style state, has parent, copy kwargs); transition = copy followed by one "
                "mutation on one side; checks: equality, parentless, forest invariant in copy, original+parent untouched, "
                "identity walk (no shared mutable object / buffer), other side byte-identical after the mutation",
    }
    return {"coverage": cov, "violations": viols, "harness_errors": harness,
            "assumptions": ["plain functions (CustomSource.field_func) may be shared between original and copy",
                            "lazy creation of a style object by reading .style is not a change"]}


def replay(case):
    r = work(case)
    return {"violated": bool(r["problems"]), "observed": r}
