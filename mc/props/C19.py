"""C19 - show() draws each object where it is and does not alter it.

Grid explorer: displayable class x path kind x style_path_frames x length unit x nesting (bare, in a
posed Collection, nested) x animation form, through show(..., backend='plotly', return_fig=True).
Drawn coordinates divided by the axis-unit factor are mapped back with the inverse pose of a
displayed path index: magnet mesh vertices must lie on the body's surface and span its extent,
Triangle-based vertex sets must equal the posed vertices, conductor points must lie on the drawn line,
the path trace must pass through every path position, Sensor / Dipole glyphs must sit at the
position (and point along the moment). Objects, styles, caller style dicts and global defaults are
compared before / after.
"""
import itertools
import json
import re

import numpy as np

from mc import common
from mc.oracles import geometry as geo

LEVEL = "exploration"
CLASSES = ["Cuboid", "Cylinder", "CylinderSegment", "Sphere", "Tetrahedron", "TriangularMesh", "Triangle", "Circle", "Polyline", "Dipole", "DipoleMz", "DipolePz", "DipoleMx", "TriangularMeshMulti", "TriangularMeshUnchecked", "TriangleNormalPol",
           "Sensor"]
PATHS = ["static", "transl3", "rot4", "spin4", "eqangle4"]
FRAMES = ["default", 1, 2, [0, 2], [0, 9], "np2"]   # "np2": the step 2 given as numpy integer
UNITS = ["m", "mm", "km", "Mm", "µm", "auto:Mm", "auto:µm", "auto:m"]
NEST = ["bare", "coll", "nested", "deep3", "deep4"]
UNIT_SCALE = {"m": 1.0, "mm": 1e-3, "km": 1e3, "Mm": 1e6, "µm": 1e-6, "Gm": 1e9, "nm": 1e-9}   # size of the unit in metres (SI prefixes)
TV = [(-0.5, -0.4, -0.3), (0.9, -0.3, -0.4), (-0.2, 0.8, -0.3), (0.0, 0.0, 0.9)]
TF = [(0, 2, 1), (0, 1, 3), (0, 3, 2), (1, 2, 3)]
PAR = {"Cuboid": {"dimension": (1.0, 1.2, 0.8)}, "Cylinder": {"dimension": (1.0, 1.2)}, "CylinderSegment": {"dimension": (0.3, 0.9, 1.1, -30, 200)},
       "Sphere": {"diameter": 1.1}, "Tetrahedron": {"vertices": [TV[0], TV[2], TV[1], TV[3]]}, "TriangularMesh": {"vertices": TV, "faces": TF},
       "Triangle": {"vertices": TV[:3]}, "Circle": {"diameter": 1.3}, "Polyline": {"vertices": [(0, 0, 0), (1, 1, 0.5), (1, 2, -0.4)]}}
# eight separate tetrahedra in one mesh, drawn with one colour per body (style.mesh.disconnected.show)
_MV = np.concatenate([np.array(TV) * 0.4 + np.array((1.3 * k - 4.5, 0.2 * (k % 3), 0.1 * k)) for k in range(8)])
_MF = np.concatenate([np.array(TF) + 4 * k for k in range(8)])
PAR["TriangularMeshMulti"] = {"vertices": _MV, "faces": _MF}
PAR["TriangularMeshUnchecked"] = {"vertices": TV, "faces": TF}
PAR["TriangleNormalPol"] = {"vertices": [(-0.5, -0.4, 0.0), (0.9, -0.3, 0.0), (-0.2, 0.8, 0.0)]}   # polarization along the normal: drawn as a thin prism (for the colour gradient)   # built with every mesh check switched off: its status stays "unchecked"
UNIT_FACTOR = {"m": 1.0, "mm": 1e3, "km": 1e-3, "cm": 1e2, "dm": 1e1, "µm": 1e6, "um": 1e6, "nm": 1e9, "Mm": 1e-6, "Gm": 1e-9, "Tm": 1e-12, "pm": 1e12}


def mk(cls, pathkind, scale=1.0):
    import magpylib as magpy
    from scipy.spatial.transform import Rotation as R

    pol = (0.2, -0.3, 0.9)
    par = {k: (v if k == "faces" else (np.array(v, float) * scale if k != "dimension" or cls != "CylinderSegment"
                                      else np.array(v, float) * np.array([scale, scale, scale, 1, 1]))) for k, v in PAR.get(cls, {}).items()}
    if cls == "Sphere" or cls == "Circle":
        par = {k: float(v) for k, v in par.items()}
    C = {"Cuboid": magpy.magnet.Cuboid, "Cylinder": magpy.magnet.Cylinder, "CylinderSegment": magpy.magnet.CylinderSegment,
         "Sphere": magpy.magnet.Sphere, "Tetrahedron": magpy.magnet.Tetrahedron, "TriangularMesh": magpy.magnet.TriangularMesh,
         "TriangleNormalPol": lambda **kw: magpy.misc.Triangle(**{**kw, "polarization": (0.0, 0.0, 0.7)}),
         "TriangularMeshUnchecked": lambda **kw: magpy.magnet.TriangularMesh(check_open="skip", check_disconnected="skip", check_selfintersecting="skip",
                                                                             reorient_faces="skip", **kw),
         "TriangularMeshMulti": lambda **kw: magpy.magnet.TriangularMesh(check_disconnected="ignore", style_mesh_disconnected_show=True, **kw),
         "Triangle": magpy.misc.Triangle, "Circle": magpy.current.Circle, "Polyline": magpy.current.Polyline}
    if cls in ("Circle", "Polyline"):
        o = C[cls](current=1.5, **par)
    elif cls.startswith("Dipole"):   # also moments exactly along / against a coordinate axis of the local frame
        o = magpy.misc.Dipole(moment={"Dipole": (0.3, -0.2, 0.7), "DipoleMz": (0, 0, -0.7), "DipolePz": (0, 0, 0.7), "DipoleMx": (-0.7, 0, 0)}[cls])
    elif cls == "Sensor":
        o = magpy.Sensor(pixel=np.array([(0, 0, 0), (0.1, 0.05, 0), (0, -0.1, 0.08)]) * scale)
    else:
        o = C[cls](polarization=pol, **par)
    o.style.color = "#%02x3456" % (17 + CLASSES.index(cls) * 7)
    o.position = np.array((0.4, -0.3, 0.6)) * scale
    o.orientation = R.from_rotvec((0.3, -0.5, 0.4))
    if pathkind == "transl3":
        o.move(np.array([(0.5, 0.2, 0.1), (1.0, 0.1, -0.2)]) * scale)
    elif pathkind == "rot4":
        o.move(np.array([(0.5, 0.2, 0.1), (1.0, 0.1, -0.2), (1.2, 0.8, 0.3)]) * scale)
        o.rotate_from_rotvec([(0.0, 0.3, 0.1), (0.4, 0.1, -0.3), (0.2, -0.6, 0.5)], degrees=False, start=1)
    elif pathkind == "eqangle4":   # four poses whose rotations have the SAME angle about different axes / senses
        o.move(np.array([(2.5, 0.2, 0.1), (5.0, 0.1, -0.2), (7.2, 0.8, 0.3)]) * scale)
        o.orientation = R.from_rotvec(1.1 * np.array([(1.0, 0, 0), (0.6, 0.8, 0), (0, 0.6, 0.8), (0, -0.6, -0.8)]))
    elif pathkind == "spin4":   # turns on the spot: one position, four orientations
        o.rotate_from_angax([40, 80, 120], (1, 2, 3))
    elif pathkind == "long11":  # longer than the number of frames an animation is allowed below: indices are downsampled
        o.move(np.array([(0.31 * i, 0.07 * i * i, -0.11 * i) for i in range(1, 11)]) * scale)
        o.rotate_from_rotvec([(0.05 * i, 0.3 - 0.02 * i, 0.1 * i) for i in range(1, 11)], degrees=False, start=1)
    return o


def unit_from_title(t):
    m = re.search(r"\(([^)]+)\)", t or "")
    return m.group(1) if m else None


def traces_of(fig_data, obj):
    """traces of one object, attributed by its unique style colour (children of a Collection share its legend group)"""
    col = obj.style.color.lower()
    out = []
    for t in fig_data:
        cands = [getattr(t, "color", None)]
        for sub in ("line", "marker"):
            so = getattr(t, sub, None)
            if so is not None:
                cands.append(getattr(so, "color", None))
        hit = any(isinstance(x, str) and x.lower() == col for x in cands)
        if not hit and getattr(t, "facecolor", None) is not None:
            hit = any(isinstance(x, str) and x.lower() == col for x in t.facecolor)
        if not hit and t.type == "mesh3d" and f"(id={id(obj)})" in (t.legendgroup or ""):
            hit = True    # bodies of a disconnected mesh coloured one by one: attributed by the legend group of the object
        if hit:
            out.append(t)
    return out


def xyz(t):
    return np.array([t.x, t.y, t.z], float).T


def drawn_xyz(t):
    """vertices of a mesh3d trace that are part of the drawn surface (referred to by a face)"""
    P = xyz(t)
    if getattr(t, "i", None) is None:
        return P
    used = np.unique(np.concatenate([np.asarray(t.i, int), np.asarray(t.j, int), np.asarray(t.k, int)]))
    return P[used]


def expected_indices(L, frames):
    if frames == "np2":
        frames = 2
    if frames == "default":
        return [L - 1]
    if isinstance(frames, int):
        return sorted(set(range(L - 1, -1, -frames)))
    return sorted({min(i, L - 1) for i in frames})


def check_object(cls, obj, traces, factor, frames, scale, displayed=None):
    """returns list of problems for one object in one set of traces"""
    from scipy.spatial.transform import Rotation as R

    if cls in ("TriangularMeshMulti", "TriangularMeshUnchecked"):
        PAR_cls, cls = PAR[cls], "TriangularMesh"
        return _check_object(cls, obj, traces, factor, frames, scale, displayed, PAR_cls)
    if cls == "TriangleNormalPol":
        # the sheet is drawn with a thickness of a small fraction of its size: vertices within 2.5e-3 sizes of the triangle's
        return _check_object("Triangle", obj, traces, factor, frames, scale, displayed, PAR[cls], vtol=2.5e-3)
    return _check_object(cls, obj, traces, factor, frames, scale, displayed, PAR.get(cls, {}))


def _check_object(cls, obj, traces, factor, frames, scale, displayed, PARc, vtol=1e-9):
    from scipy.spatial.transform import Rotation as R

    problems = []
    L = len(obj._position)
    idxs = displayed if displayed is not None else expected_indices(L, frames)
    meshes = [t for t in traces if t.type == "mesh3d"]
    lines = [t for t in traces if t.type == "scatter3d" and (t.mode or "") == "lines"]
    paths = [t for t in traces if t.type == "scatter3d" and "markers" in (t.mode or "")]
    size = geo.size_of(cls, {k: np.array(v) * (1 if k == "faces" else scale) for k, v in PARc.items()}) if PARc else 0.3 * scale
    par = {k: (v if k == "faces" else (np.array(v, float) * scale)) for k, v in PARc.items()}
    if cls == "CylinderSegment":
        d = np.array(PAR[cls]["dimension"], float)
        par = {"dimension": (d[0] * scale, d[1] * scale, d[2] * scale, d[3], d[4])}
    if cls in ("Sphere", "Circle"):
        par = {k: float(v) for k, v in par.items()}

    def back(P, m):
        return obj._orientation[m].inv().apply(P - obj._position[m])

    # path trace passes through every path position
    if L > 1 and displayed is None:
        if not paths:
            problems.append("no-path-trace")
        else:
            pp = np.concatenate([xyz(t) / factor for t in paths])
            for m in range(L):
                if np.min(np.linalg.norm(pp - obj._position[m], axis=1)) > 1e-9 * max(size, 1e-300) + 1e-12:
                    problems.append(f"path-trace-misses-position-{m}")
                    break
    if cls in ("Cuboid", "Cylinder", "CylinderSegment", "Sphere", "Tetrahedron", "TriangularMesh", "Triangle"):
        if not meshes:
            return problems + ["no-mesh-trace"]
        V = np.concatenate([drawn_xyz(t) / factor for t in meshes])
        owner = np.full(len(V), -1)
        for m in idxs:
            loc = back(V, m)
            if cls in ("Tetrahedron", "TriangularMesh", "Triangle"):
                vv = np.array(par["vertices"], float)
                ok = np.min(np.linalg.norm(loc[:, None, :] - vv[None], axis=2), axis=1) < vtol * size
            else:
                ok = geo.classify(cls, par, loc, band=1e-9) == 0
            owner[(owner < 0) & ok] = m
        if np.any(owner < 0):
            # is it drawn at a pose that is not a displayed index at all?
            alt = [m for m in range(L) if m not in idxs]
            hit = None
            for m in alt:
                loc = back(V[owner < 0], m)
                ok = (geo.classify(cls, par, loc, band=1e-9) == 0) if cls not in ("Tetrahedron", "TriangularMesh", "Triangle") else (
                    np.min(np.linalg.norm(loc[:, None, :] - np.array(par["vertices"], float)[None], axis=2), axis=1) < 1e-9 * size)
                if ok.all():
                    hit = m
            problems.append(f"mesh-vertices-off-surface:{int((owner < 0).sum())}-of-{len(V)}" + (f"-drawn-at-path-index-{hit}-instead" if hit is not None else ""))
            return problems
        counts = [int((owner == m).sum()) for m in idxs]
        if len(set(counts)) > 1 or counts[0] == 0:
            problems.append(f"displayed-poses-unequal-shares:{counts}")
        # extent
        for m in idxs:
            if not np.any(owner == m):
                problems.append(f"displayed-pose-missing:index-{m}")
                break
            loc = back(V[owner == m], m)
            if cls in ("Tetrahedron", "TriangularMesh", "Triangle"):
                vv = np.array(par["vertices"], float)
                miss = np.min(np.linalg.norm(vv[:, None, :] - loc[None], axis=2), axis=1) > vtol * size
                if miss.any():
                    problems.append("body-vertices-not-drawn")
                    break
            else:
                ext = loc.max(axis=0) - loc.min(axis=0)
                if cls == "Cuboid":
                    want = np.array(par["dimension"], float)
                elif cls == "Cylinder":
                    want = np.array([par["dimension"][0], par["dimension"][0], par["dimension"][1]])
                elif cls == "Sphere":
                    want = np.full(3, par["diameter"])
                else:
                    want = None
                    zext = par["dimension"][2]
                    if abs(ext[2] - zext) > 1e-9 * size or np.max(np.hypot(loc[:, 0], loc[:, 1])) < par["dimension"][1] * (1 - 1e-9):
                        problems.append("extent-wrong")
                        break
                if want is not None and np.any(np.abs(ext - want) > 0.03 * want):
                    problems.append(f"extent-wrong:{ext.tolist()}-vs-{want.tolist()}")
                    break
    elif cls in ("Circle", "Polyline"):
        if not lines:
            return problems + ["no-line-trace"]
        for m in idxs:
            if cls == "Circle":
                t = np.linspace(0, 2 * np.pi, 73)[:-1]
                r0 = par["diameter"] / 2
                cond = np.array([r0 * np.cos(t), r0 * np.sin(t), 0 * t]).T
            else:
                cond = np.array(par["vertices"], float)
            glob = obj._orientation[m].apply(cond) + obj._position[m]
            best = np.full(len(glob), np.inf)
            for tr in lines:
                P = xyz(tr) / factor
                P = P[np.isfinite(P).all(axis=1)]
                for a, b in zip(P[:-1], P[1:]):
                    d = b - a
                    dd = float(d @ d)
                    u = np.clip(((glob - a) @ d) / dd, 0, 1) if dd > 0 else np.zeros(len(glob))
                    best = np.minimum(best, np.linalg.norm(glob - (a + u[:, None] * d), axis=1))
            if np.max(best) > 0.01 * size:
                problems.append(f"conductor-points-not-on-drawn-line:max-dist-{np.max(best) / size:.3g}-sizes-at-index-{m}")
                break
    elif cls == "Sensor" or cls.startswith("Dipole"):
        if not meshes:
            return problems + ["no-glyph-trace"]
        V = np.concatenate([xyz(t) / factor for t in meshes])
        for m in idxs:
            p = obj._position[m]
            if cls == "Sensor":
                if np.min(np.linalg.norm(V - p, axis=1)) > 1e-9 * max(scale, 1e-300) + 1e-12:
                    problems.append(f"sensor-glyph-not-at-position-index-{m}")
                    break
                pix = obj._orientation[m].apply(np.array(obj.pixel, float).reshape(-1, 3)) + p
                lo, hi = V.min(axis=0), V.max(axis=0)
                if np.any(pix < lo - 1e-9) or np.any(pix > hi + 1e-9):
                    problems.append("pixels-outside-drawn-glyph")
                    break
            else:
                # vertices of the arrow that belong to this index: those closest to p among displayed positions
                others = [obj._position[k] for k in idxs]
                own = np.argmin(np.array([np.linalg.norm(V - q, axis=1) for q in others]), axis=0) == idxs.index(m)
                W = V[own]
                if len(W) < 4:
                    problems.append("dipole-glyph-missing")
                    break
                c = (W.max(axis=0) + W.min(axis=0)) / 2
                mom = obj._orientation[m].apply(np.array(obj.moment, float))
                mom /= np.linalg.norm(mom)
                X = W - W.mean(axis=0)
                ax = np.linalg.svd(X, full_matrices=False)[2][0]
                ext = np.ptp(X @ mom)
                if abs(ax @ mom) < 0.98:
                    problems.append(f"dipole-arrow-not-along-moment:cos={abs(ax @ mom):.3f}")
                    break
                if abs((c - p) @ mom) > 0.15 * ext + 1e-12:
                    problems.append("dipole-arrow-not-centred-on-position")
                    break
                # the sense: the widest ring of the glyph is the base of the arrow head, it lies on the tip side of the middle
                tpos = (W - c) @ mom
                rad = np.linalg.norm((W - c) - np.outer(tpos, mom), axis=1)
                wide = tpos[rad > 0.9 * rad.max()]
                if len(wide) and np.mean(wide) < 0:
                    problems.append("dipole-arrow-points-against-the-moment")
                    break
    return problems


def snapshot_all(objs):
    from mc.props import C08

    allo = C08.all_objects(objs)
    return C08.snapshot(allo), C08.defaults_sig()


def run_case(c):
    import magpylib as magpy
    from scipy.spatial.transform import Rotation as R

    cls, pk, frames, unit, nest, anim = c["cls"], c["path"], c["frames"], c["unit"], c["nest"], c["anim"]
    auto = unit.startswith("auto:")
    if auto:   # the scene has the size of the named unit; show() is asked to choose the unit itself
        unit_req, unit = "auto", unit.split(":")[1]
    else:
        unit_req = unit
    scale = UNIT_SCALE[unit] if (c.get("scaled") or auto) else 1.0
    obj = mk(cls, pk, scale)
    top = obj
    if nest == "coll":
        top = magpy.Collection(obj, position=np.array((1, 1, 1)) * scale)
        top.rotate_from_angax(35, (1, 0, 1), anchor=None)
        top.move(np.array((0.3, -0.2, 0.1)) * scale)
    elif nest == "nested":
        inner = magpy.Collection(obj, position=np.array((1, 0, 0)) * scale)
        top = magpy.Collection(inner, magpy.Sensor(position=np.array((3, 3, 3)) * scale, style_color="#fedcba"))
        top.rotate_from_angax(35, (1, 0, 1), anchor=0)
        inner.move(np.array((0.3, -0.2, 0.1)) * scale)
    elif nest in ("deep3", "deep4"):   # the object sits 3 / 4 collections below the one that is shown
        lvl = magpy.Collection(obj, position=np.array((1, 0, 0)) * scale)
        for k in range(int(nest[-1]) - 1):
            lvl = magpy.Collection(lvl, magpy.Sensor(position=np.array((3, 3 + k, 3)) * scale, style_color="#fedcb%d" % k),
                                   position=np.array((0, 0.5 * k, 0)) * scale)
        top = lvl
        top.rotate_from_angax(35, (1, 0, 1), anchor=0)
    extra = None
    if anim:
        extra = mk("Cuboid" if cls != "Cuboid" else "Sphere", "static", scale)
        extra.position = np.array([(3 + 0.1 * i, 3, 3) for i in range(7)]) * scale   # longer path: frames beyond obj's path
        extra.style.color = "#abcdef"
    kw = {"backend": "plotly", "return_fig": True, "units_length": unit_req}
    style_dict = {"path": {"frames": frames}} if frames != "default" else {}
    caller_style = json.dumps(style_dict, sort_keys=True)
    for flag in ("style_magnetization_show", "style_arrow_show", "style_orientation_show"):
        pass
    skw = {}
    if cls in ("Cuboid", "Cylinder", "CylinderSegment", "Sphere", "Tetrahedron", "TriangularMesh", "Triangle", "TriangularMeshMulti", "TriangularMeshUnchecked", "TriangleNormalPol"):
        obj.style.magnetization.show = False
    if cls in ("Triangle", "TriangleNormalPol"):
        obj.style.orientation.show = False
    if cls in ("TriangularMesh", "TriangularMeshMulti", "TriangularMeshUnchecked"):
        obj.style.orientation.show = False
    if cls in ("Circle", "Polyline"):
        obj.style.arrow.show = False
    if frames != "default":
        obj.style.path.frames = np.int64(2) if frames == "np2" else frames
    if anim:
        kw["animation"] = anim if anim not in ("kwargs", "downsample") else True
        if anim == "kwargs":
            kw.update(animation_fps=7, animation_time=2, animation_slider=True)
        if anim == "downsample":  # 2 s x 3 fps = 6 frames for paths of 11 (object) and 7 (companion) steps
            kw.update(animation_fps=3, animation_time=2)
    objs = [top] + ([extra] if extra is not None else [])
    before = snapshot_all(objs)
    try:
        with common.time_limit(120):
            fig = magpy.show(*objs, **kw)
    except Exception as e:
        return [f"show-raised-{type(e).__name__}: {e}"[:160]]
    problems = []
    after = snapshot_all(objs)
    if after[0] != before[0]:
        from mc.props import C08

        problems.append("show-changed-objects:" + ",".join(C08.diff_snap(before[0], after[0])[:4]))
    if after[1] != before[1]:
        problems.append("show-changed-global-defaults")
    if json.dumps(style_dict, sort_keys=True) != caller_style:
        problems.append("show-changed-caller-style-dict")
    u = unit_from_title(fig.layout.scene.xaxis.title.text)
    if auto:
        # any unit may be chosen, but all axes announce the same one, it is an SI length unit, and the numbers are in it
        if u not in UNIT_FACTOR or unit_from_title(fig.layout.scene.yaxis.title.text) != u or unit_from_title(fig.layout.scene.zaxis.title.text) != u:
            problems.append(f"axis-unit-{u}-not-a-length-unit-or-axes-disagree")
            return problems
        unit = u
    elif u != unit or unit_from_title(fig.layout.scene.yaxis.title.text) != unit or unit_from_title(fig.layout.scene.zaxis.title.text) != unit:
        problems.append(f"axis-unit-{u}-instead-of-{unit}")
        return problems
    factor = UNIT_FACTOR[unit]
    if not anim:
        problems += check_object(cls, obj, traces_of(fig.data, obj), factor, frames, scale)
    else:
        nfr = len(fig.frames)
        L = len(obj._position)
        maxL = max(L, 7)
        allowed = {True: 100, 2: 40, "kwargs": 14, "downsample": 6}[anim]   # animation_time x animation_fps (defaults 5 x 20)
        want = min(maxL, allowed)
        if nfr != want and not (maxL > allowed and 2 <= nfr <= allowed):
            problems.append(f"animation-frame-count-{nfr}-expected-{want}")
        # every frame announces (name, title) the path index it displays; the object must be drawn at that index,
        # the first frame shows the start and the last frame the end of the longest path, indices increase
        try:
            inds = [int(fr.name) - 1 for fr in fig.frames]
        except Exception:
            inds = None
            problems.append("animation-frame-names-not-path-indices")
        if inds is not None:
            if inds[0] != 0 or inds[-1] != maxL - 1 or any(b <= a for a, b in zip(inds, inds[1:])):
                problems.append(f"animation-frame-indices-{inds}-do-not-run-from-0-to-{maxL - 1}")
            for k, (fr, ind) in enumerate(zip(fig.frames, inds)):
                ttl = getattr(getattr(fr.layout, "title", None), "text", None) or ""
                if f"path index: {ind + 1}" not in ttl.replace("path index: 0", "path index: "):
                    problems.append(f"animation-frame-title-{ttl!r}-does-not-announce-index-{ind + 1}")
                    break
                pr = check_object(cls, obj, traces_of(fr.data, obj), factor, "default", scale, displayed=[min(ind, L - 1)])
                if pr:
                    problems += [f"animation-frame-{k}:{p}" for p in pr[:1]]
                    break
    return problems


# ------------------------------------------------------------------ show() that fails: nothing may be modified either
SHOW_FAULTS = ["trace_missing_coord", "trace_bad_constructor", "trace_callable_raises", "bad_backend", "bad_style_kwarg",
               "bad_animation_output", "bad_canvas"]


def run_fault(c):
    import magpylib as magpy

    cls, fault, pos = c["cls"], c["fault"], c["faulty_at"]
    objs = [mk("Cuboid" if cls != "Cuboid" else "Sphere", "transl3"), mk(cls, "rot4"), mk("Sensor", "static")]
    objs[0].style.color, objs[2].style.color = "#111111", "#222222"
    objs = objs[-pos:] + objs[:-pos] if pos else objs        # position of the faulty object in the argument list
    bad = [o for o in objs if type(o).__name__ == ("Dipole" if cls.startswith("Dipole") else "TriangularMesh" if cls.startswith("TriangularMesh") else "Triangle" if cls == "TriangleNormalPol" else cls)][-1] if cls != "Sensor" else objs[(2 + pos) % 3]
    kw = {"backend": "plotly", "return_fig": True}

    calls = {"n": 0}

    def raiser():  # valid when the trace is added (the library probes it once), fails when the figure is built
        calls["n"] += 1
        if calls["n"] > 1:
            raise RuntimeError("user trace function failed")
        return {"x": [0, 1], "y": [0, 1], "z": [0, 1]}

    if fault == "trace_missing_coord":
        bad.style.model3d.add_trace(backend="generic", constructor="Scatter3d", kwargs={"x": [0, 1], "y": [0, 1]}, show=True)
    elif fault == "trace_bad_constructor":
        bad.style.model3d.add_trace(backend="generic", constructor="NoSuchTrace", kwargs={"x": [0, 1], "y": [0, 1], "z": [0, 1]}, show=True)
    elif fault == "trace_callable_raises":
        bad.style.model3d.add_trace(backend="generic", constructor="Scatter3d", kwargs=raiser, show=True)
    elif fault == "bad_backend":
        kw["backend"] = "no-such-backend"
    elif fault == "bad_style_kwarg":
        kw["style_nonexistentproperty"] = 1
    elif fault == "bad_animation_output":
        kw.update(animation=True, animation_output="no-such-format")
    elif fault == "bad_canvas":
        kw["canvas"] = "not a canvas"
    ids_before = [id(o._style) for o in objs]
    before = snapshot_all(objs)
    try:
        with common.time_limit(120):
            magpy.show(*objs, **kw)
        outcome = "ok"
    except Exception as e:
        outcome = type(e).__name__
    problems = []
    after = snapshot_all(objs)
    if after[0] != before[0]:
        from mc.props import C08

        problems.append(f"failed-show({outcome})-changed-objects:" + ",".join(C08.diff_snap(before[0], after[0])[:4]))
    if [id(o._style) for o in objs] != ids_before:
        problems.append(f"failed-show({outcome})-replaced-style-object")
    if after[1] != before[1]:
        problems.append(f"failed-show({outcome})-changed-global-defaults")
    return problems, outcome


# ------------------------------------------------------------------ matplotlib backend: the artists of the returned figure
def mpl_traces(fig):
    """the 3-D artists of a matplotlib figure in the shape check_object() understands"""
    from types import SimpleNamespace

    out = []
    for ax in fig.axes:
        for a in ax.collections:
            vec = getattr(a, "_vec", None)
            faces = getattr(a, "_faces", None)
            if faces is not None and np.size(faces):     # matplotlib >= 3.9: (n_faces, n_vertices, 3)
                P = np.ma.filled(np.ma.asarray(faces), np.nan).reshape(-1, 3)
                P = P[np.isfinite(P).all(axis=1)]
                out.append(SimpleNamespace(type="mesh3d", mode=None, x=P[:, 0], y=P[:, 1], z=P[:, 2]))
            elif vec is not None and np.size(vec):
                out.append(SimpleNamespace(type="mesh3d", mode=None, x=np.array(vec[0]), y=np.array(vec[1]), z=np.array(vec[2])))
            elif hasattr(a, "_offsets3d"):
                x, y, z = a._offsets3d
                out.append(SimpleNamespace(type="scatter3d", mode="markers", x=np.array(x, float), y=np.array(y, float), z=np.array(z, float)))
        for ln in ax.lines:
            x, y, z = ln.get_data_3d()
            marker = ln.get_marker() not in (None, "None", "", " ")
            mode = ("lines+markers" if marker else "lines") if ln.get_linestyle() not in ("None", "", " ") else "markers"
            out.append(SimpleNamespace(type="scatter3d", mode=mode, x=np.array(x, float), y=np.array(y, float), z=np.array(z, float)))
    return out


def run_mpl(c):
    import matplotlib

    matplotlib.use("Agg")
    import magpylib as magpy
    import matplotlib.pyplot as plt

    cls, pk, frames, unit = c["cls"], c["path"], c["frames"], c["unit"]
    scale = {"m": 1.0, "mm": 1e-3, "km": 1e3}[unit] if c.get("scaled") else 1.0
    obj = mk(cls, pk, scale)
    if cls in ("Cuboid", "Cylinder", "CylinderSegment", "Sphere", "Tetrahedron", "TriangularMesh", "Triangle", "TriangularMeshMulti", "TriangularMeshUnchecked", "TriangleNormalPol"):
        obj.style.magnetization.show = False
    if cls in ("Triangle", "TriangularMesh", "TriangleNormalPol", "TriangularMeshMulti", "TriangularMeshUnchecked"):
        obj.style.orientation.show = False
    if cls in ("Circle", "Polyline"):
        obj.style.arrow.show = False
    if frames != "default":
        obj.style.path.frames = np.int64(2) if frames == "np2" else frames
    before = snapshot_all([obj])
    try:
        with common.time_limit(120):
            fig = magpy.show(obj, backend="matplotlib", return_fig=True, units_length=unit)
    except Exception as e:
        return [f"show-raised-{type(e).__name__}: {e}"[:160]]
    problems = []
    try:
        after = snapshot_all([obj])
        if after[0] != before[0]:
            from mc.props import C08

            problems.append("show-changed-objects:" + ",".join(C08.diff_snap(before[0], after[0])[:4]))
        if after[1] != before[1]:
            problems.append("show-changed-global-defaults")
        ax = fig.axes[0]
        units = {unit_from_title(ax.get_xlabel()), unit_from_title(ax.get_ylabel()), unit_from_title(ax.get_zlabel())}
        if units != {unit}:
            problems.append(f"axis-unit-{sorted(map(str, units))}-instead-of-{unit}")
            return problems
        problems += check_object(cls, obj, mpl_traces(fig), UNIT_FACTOR[unit], frames, scale)
    finally:
        plt.close(fig)
    return problems


# ------------------------------------------------------------------ user supplied extra 3-D models (style.model3d traces)
EXTRA_Q = np.array([(0.1, 0.2, 0.3), (0.5, -0.2, 0.1), (-0.3, 0.4, 0.6), (0.2, 0.2, -0.5), (0.0, -0.4, 0.2)])
EXTRA_FORMS = ["generic_kwargs", "plotly_kwargs", "plotly_callable", "matplotlib_args"]


def run_extra(c):
    """an extra model attached by the user is part of the object's graphic: its points (local coordinates x trace scale) must be
    drawn at R_m (scale Q) + p_m for every displayed path index, in the announced unit - and the trace definition must come
    back unchanged (it is re-used for every index and every later show)"""
    import magpylib as magpy

    cls, pk, frames, unit, form, tscale = c["cls"], c["path"], c["frames"], c["unit"], c["form"], c["tscale"]
    scale = {"m": 1.0, "mm": 1e-3, "km": 1e3}[unit] if unit != "m" else 1.0
    obj = mk(cls, pk, scale)
    if cls == "Cuboid":
        obj.style.magnetization.show = False
    Q = EXTRA_Q * scale
    if frames != "default":
        obj.style.path.frames = np.int64(2) if frames == "np2" else frames
    kw = dict(x=Q[:, 0].copy(), y=Q[:, 1].copy(), z=Q[:, 2].copy(), mode="lines")
    if form == "generic_kwargs":
        obj.style.model3d.add_trace(backend="generic", constructor="scatter3d", kwargs=kw, scale=tscale, show=True)
    elif form == "plotly_kwargs":
        obj.style.model3d.add_trace(backend="plotly", constructor="Scatter3d", kwargs=kw, scale=tscale, show=True)
    elif form == "plotly_callable":
        obj.style.model3d.add_trace(backend="plotly", constructor="Scatter3d", kwargs=lambda: dict(kw), scale=tscale, show=True)
    else:
        obj.style.model3d.add_trace(backend="matplotlib", constructor="plot", args=(Q[:, 0].copy(), Q[:, 1].copy(), Q[:, 2].copy()),
                                    kwargs={"ls": "-"}, scale=tscale, show=True)
    backend = "matplotlib" if form == "matplotlib_args" else "plotly"
    import copy as _copy

    t0 = obj.style.model3d.data[-1]
    def0 = _copy.deepcopy((t0.kwargs if not callable(t0.kwargs) else None, t0.args if not callable(t0.args) else None, t0.scale, t0.coordsargs))
    problems = []
    for rep in (1, 2):     # shown twice: the second figure must be the same
        try:
            with common.time_limit(120):
                fig = magpy.show(obj, backend=backend, return_fig=True, units_length=unit)
        except Exception as e:
            return [f"show-raised-{type(e).__name__}: {e}"[:160]]
        if backend == "plotly":
            u = unit_from_title(fig.layout.scene.xaxis.title.text)
            tr = [t for t in fig.data if t.type == "scatter3d" and (t.mode or "") == "lines"]
        else:
            import matplotlib.pyplot as plt

            u = unit_from_title(fig.axes[0].get_xlabel())
            tr = [t for t in mpl_traces(fig) if t.type == "scatter3d" and t.mode == "lines"]
            plt.close(fig)
        if u != unit:
            return [f"axis-unit-{u}-instead-of-{unit}"]
        factor = UNIT_FACTOR[unit]
        if not tr:
            return [f"extra-model-not-drawn (show #{rep})"]
        P = np.concatenate([xyz(t) for t in tr]) / factor
        P = P[np.isfinite(P).all(axis=1)]
        L = len(obj._position)
        idxs = expected_indices(L, frames)
        want = np.concatenate([obj._orientation[m].apply(Q * tscale) + obj._position[m] for m in idxs])
        size = np.max(np.abs(Q)) * max(tscale, 1)
        d = np.min(np.linalg.norm(want[:, None, :] - P[None], axis=2), axis=1)
        if np.max(d) > 1e-9 * size + 1e-12 * np.max(np.abs(want)):
            i = int(np.argmax(d))
            problems.append(f"extra-model-point-missing (show #{rep}): expected {want[i].tolist()} at displayed index {idxs[i // len(Q)]}, nearest drawn point {d[i] / size:.3g} sizes away")
            break
        if len(P) != len(want):
            problems.append(f"extra-model-drawn-{len(P)}-points-instead-of-{len(want)} (show #{rep})")
            break
    t = obj.style.model3d.data[-1]
    def1 = (t.kwargs if not callable(t.kwargs) else None, t.args if not callable(t.args) else None, t.scale, t.coordsargs)
    from mc.props.C18 import deep_sig

    if deep_sig(def1) != deep_sig(def0):
        problems.append("show-changed-the-trace-definition (kwargs / args of the user's trace)")
    return problems


SUB_MODES = ["arrow", "color", "auto", "arrow+color"]
SUB_NEST = ["bare", "coll", "nested", "mixed"]


def _scene_sig(traces):
    """geometric content of a list of plotly traces (legend / naming left out)"""
    out = []
    for t in traces:
        d = t.to_plotly_json()
        ent = [d.get("type"), d.get("mode")]
        for k in ("x", "y", "z", "i", "j", "k"):
            v = d.get(k)
            if v is not None:
                a = np.asarray(v, float)
                ent.append((k, a.shape, np.round(a, 9).tobytes()))
        out.append(tuple(ent))
    return sorted(out, key=repr)


def run_subplots(c):
    """the same objects in the same state shown in several 3D subplots of one call: every subplot must contain exactly what a
    show() of the objects alone contains (a decoration resolved for the first subplot must not be lost or changed in the next)"""
    import magpylib as magpy

    mode, nest, ncol, cls = c["mode"], c["nest"], c["ncol"], c["cls"]

    def build():
        o = mk(cls, c["path"])
        if mode != "default":
            o.style.magnetization.mode = mode
            o.style.magnetization.show = True
        o2 = mk("Cylinder" if cls != "Cylinder" else "Cuboid", "static")
        o2.position = (3, 3, 3)
        if nest == "bare":
            return [o]
        if nest == "coll":
            return [magpy.Collection(o, o2)]
        if nest == "nested":
            return [magpy.Collection(magpy.Collection(o), o2)]
        return [magpy.Collection(magpy.Collection(o)), o2]

    objs = build()
    before = snapshot_all(objs)
    try:
        with common.time_limit(120):
            ref = magpy.show(*build(), backend="plotly", return_fig=True)
            fig = magpy.show(*[{"objects": objs, "col": k + 1} for k in range(ncol)], backend="plotly", return_fig=True)
    except Exception as e:
        return [f"show-raised-{type(e).__name__}: {e}"[:160]]
    problems = []
    if snapshot_all(objs) != before:
        problems.append("show-changed-objects-or-defaults")
    want = _scene_sig(ref.data)
    by_scene = {}
    for t in fig.data:
        by_scene.setdefault(t.scene or "scene", []).append(t)
    if len(by_scene) != ncol:
        return problems + [f"subplots-{len(by_scene)}-scenes-instead-of-{ncol}"]
    for k, name in enumerate(sorted(by_scene, key=lambda x: (len(x), x))):
        got = _scene_sig(by_scene[name])
        if got != want:
            kinds = lambda sig: sorted({(e[0], e[1]) for e in sig})
            problems.append(f"subplot-{k + 1}-differs-from-single-show: {len(got)} traces {kinds(got)} vs {len(want)} traces {kinds(want)}")
            break
    return problems


def work(c):
    try:
        if c.get("subplots"):
            return run_subplots(c)
        if c.get("extra"):
            return run_extra(c)
        if c.get("backend") == "matplotlib":
            return run_mpl(c)
        if "fault" in c:
            return run_fault(c)[0]
        return run_case(c)
    except Exception as e:
        import traceback

        return ["HARNESS " + f"{type(e).__name__}: {e} {traceback.format_exc()[-400:]}"]


def enumerate_cases(tier):
    cases = []
    for cls in CLASSES:
        for pk in PATHS:
            for frames in FRAMES:
                if pk == "static" and frames != "default":
                    continue
                if pk in ("spin4", "eqangle4") and (cls == "Sphere" or cls.startswith("Dipole")):
                    continue   # poses of a body that is symmetric under the turn cannot be told apart in the drawing
                for unit in (UNITS if tier == "thorough" else ["m", "mm", "Mm", "auto:Mm", "auto:µm"]):
                    for nest in NEST:
                        if cls == "TriangularMeshMulti" and nest != "bare":
                            continue   # its traces are attributed through the legend group, which is the parent's for a child
                        if tier == "quick" and nest in ("nested", "deep3", "deep4") and (unit != "m" or frames not in ("default", 1)):
                            continue
                        if tier == "quick" and unit in ("Mm", "auto:Mm", "auto:µm") and (nest != "bare" or frames not in ("default", 1)):
                            continue
                        cases.append({"cls": cls, "path": pk, "frames": frames, "unit": unit, "nest": nest, "anim": False,
                                      "scaled": unit != "m"})
        for anim in (True, 2, "kwargs", "downsample"):
            for pk in ("transl3", "rot4", "long11"):
                for nest in ("bare", "coll"):
                    if tier == "quick" and (nest == "coll" and anim != True):  # noqa: E712
                        continue
                    if cls == "TriangularMeshMulti" and nest != "bare":
                        continue
                    if pk == "long11" and anim not in ("downsample", "kwargs"):
                        continue
                    cases.append({"cls": cls, "path": pk, "frames": "default", "unit": "m", "nest": nest, "anim": anim, "scaled": False})
    for cls in ("Cuboid", "Sensor"):
        for pk in ("static", "rot4", "spin4"):
            for frames in ("default", 1, [0, 2]):
                if pk == "static" and frames != "default":
                    continue
                for unit in ("m", "mm"):
                    for form in EXTRA_FORMS:
                        for tscale in (1, 2.5):
                            cases.append({"extra": True, "cls": cls, "path": pk, "frames": frames, "unit": unit, "form": form, "tscale": tscale,
                                          "nest": "bare", "anim": False})
    for cls in CLASSES:
        if cls == "Sensor" or cls.startswith("Dipole"):
            continue   # autosized glyphs are backend specific
        for pk in PATHS:
            for frames in FRAMES:
                if (pk == "static" and frames != "default") or (pk in ("spin4", "eqangle4") and cls == "Sphere"):
                    continue
                for unit in (["m", "mm", "km"] if tier == "thorough" else ["m", "mm"]):
                    cases.append({"backend": "matplotlib", "cls": cls, "path": pk, "frames": frames, "unit": unit, "nest": "bare", "anim": False,
                                  "scaled": unit != "m"})
    for cls in ("Cuboid", "Cylinder", "Sphere", "CylinderSegment", "Tetrahedron", "TriangularMesh", "Triangle", "Circle", "Sensor"):
        for mode in (SUB_MODES + ["default"] if cls in ("Cuboid", "Cylinder", "Sphere", "CylinderSegment", "Tetrahedron", "TriangularMesh") else ["default"]):
            for nest in SUB_NEST:
                for ncol in (2, 3):
                    for pk in ("static", "rot4"):
                        if tier == "quick" and ((ncol == 3 and nest not in ("coll", "mixed")) or (pk == "rot4" and mode not in ("arrow", "default"))):
                            continue
                        cases.append({"subplots": True, "cls": cls, "mode": mode, "nest": nest, "ncol": ncol, "path": pk, "frames": "default", "unit": "m", "anim": False})
    for cls in CLASSES:
        for fault in SHOW_FAULTS:
            for pos in ((0, 1, 2) if fault.startswith("trace") else (0,)):
                if tier == "quick" and pos == 2:
                    continue
                cases.append({"cls": cls, "fault": fault, "faulty_at": pos})
    return cases


def run(tier, seed):
    cases = enumerate_cases(tier)
    res = common.pmap(work, cases)
    viols, harness = [], []
    for c, r in zip(cases, res):
        for p in r:
            if p.startswith("HARNESS"):
                harness.append(f"{c}: {p}")
                continue
            kind = p.split(":")[0]
            if c.get("subplots"):
                viols.append({"key": f"C19|subplots|{c['cls']}|mode={c['mode']}|{c['nest']}|{kind.split(' ')[0]}", "what": f"{c}: {p}", "case": c, "observed": p})
                continue
            if c.get("extra"):
                viols.append({"key": f"C19|extra-model|{c['form']}|{c['path']}|scale={c['tscale']}|{kind.split(' ')[0]}", "what": f"{c}: {p}", "case": c, "observed": p})
                continue
            if c.get("backend") == "matplotlib":
                fr_ = "frames-list" if isinstance(c["frames"], list) else f"frames-{c['frames']}"
                viols.append({"key": f"C19|matplotlib|{c['cls']}|{c['path']}|{fr_}|{kind}", "what": f"{c}: {p}", "case": c, "observed": p})
                continue
            if "fault" in c:
                viols.append({"key": f"C19|{c['cls']}|fault={c['fault']}|{kind}", "what": f"{c}: {p}", "case": c, "observed": p})
                continue
            if kind.startswith("animation-frame-") and kind[16:].isdigit():
                kind = "animation-frame|" + p.split(":")[1]
            elif kind.startswith("animation-frame-"):
                kind = "-".join(kind.split("-")[:3])
            fr = "frames-list" if isinstance(c["frames"], list) else f"frames-{c['frames']}"
            viols.append({"key": f"C19|{c['cls']}|{c['path']}|{fr}|{'anim' if c['anim'] else 'static-fig'}|{kind}",
                          "what": f"{c}: {p}", "case": c, "observed": p})
    cov = {
        "evaluations": len(cases), "distinct_nontrivial": sum(1 for c in cases if "fault" in c or c.get("extra") or c["path"] != "static" or c["nest"] != "bare" or c["unit"] != "m"),
        "rule": "one evaluation = one show(..., backend='plotly', return_fig=True) call whose traces are mapped back to the objects; "
                "cases are distinct (class, path kind, frames, unit, nesting, animation); non-trivial = a path, a parent or a non-metre unit",
        "samples": [cases[0], cases[len(cases) // 2], cases[-1]],
        "exhaustive": True, "show_faults": SHOW_FAULTS, "classes": CLASSES, "frames": [str(f) for f in FRAMES], "units": UNITS, "nesting": NEST,
    }
    return {"coverage": cov, "violations": viols, "harness_errors": harness[:5],
            "assumptions": ["plotly backend and its generic traces only (pyvista and rendered matplotlib figures are outside the enumeration)",
                            "decorations are switched off through their own style flags; autosized glyphs are checked for placement and "
                            "direction only"]}


def replay(case):
    r = work(case)
    return {"violated": bool(r) and not r[0].startswith("HARNESS"), "observed": r[:5]}
