"""C20 - style settings resolve by precedence and never leak.

History explorer per style leaf: all ordered pairs of actions (object-layer write in one of six
notations, family-default write, base-default write, defaults.reset()) from three ways an object can
be born (plain, constructor underscore keyword, constructor nested dict), checked after every step
against a layered flat-dict reference model: object style, resolved style (get_style) with and
without a show() keyword, bystander objects, copies, the complete defaults tree, reset().
"""
import copy
import json

import numpy as np

from mc import common

LEVEL = "model_checking"

POOL = [True, False, "red", "blue", 0.3, 0.7, 2, 3, 5, "solid", "dashed", "o", "x", "scaled", "absolute", "auto",
        "arrow", "color", "arrow+color", "tricolor", "bicolor", "tricycle", "some text", "other text", (1, 2), [0, 2],
        "arrow3d", "cone", "tail", "tip", "middle", "matplotlib", "plotly", ["#2e91e5", "#e15f99"], ["red", "blue", "green"],
        "gif", "mp4", 30, 50, "plotly_dark", "inwards", "outwards"]
BADPOOL = ["definitely-not-valid", -1, (1, 2, 3, 4, 5), {"a": 1}, 1.5j]

FAMILIES = {
    "magnet": lambda **kw: _mp().magnet.Cuboid(dimension=(1, 1, 1), polarization=(0, 0, 1), **kw),
    "current": lambda **kw: _mp().current.Circle(diameter=1, current=1, **kw),
    "sensor": lambda **kw: _mp().Sensor(**kw),
    "dipole": lambda **kw: _mp().misc.Dipole(moment=(0, 0, 1), **kw),
    "triangle": lambda **kw: _mp().misc.Triangle(vertices=[(0, 0, 0), (1, 0, 0), (0, 1, 0)], polarization=(0, 0, 1), **kw),
    "triangularmesh": lambda **kw: _mp().magnet.TriangularMesh(
        vertices=[(0, 0, 0), (1, 0, 0), (0, 1, 0), (0, 0, 1)], faces=[(0, 1, 2), (0, 1, 3), (0, 2, 3), (1, 2, 3)],
        polarization=(0, 0, 1), **kw),
}
# style family used for the default layer of each object kind
DEFAULT_FAMILY = {"magnet": "magnet", "current": "current", "sensor": "sensor", "dipole": "dipole",
                  "triangle": "triangle", "triangularmesh": "triangularmesh"}
# objects with two style families: the generic family applies where the specific one has no (non-None) default
GENERIC_FAMILY = {"triangle": "magnet", "triangularmesh": "magnet"}
OBJ_VIAS = ["attr", "update_kw", "update_dict", "update_nested", "sub_update", "style_setter"]


def _mp():
    import magpylib

    return magpylib


def DS():
    from magpylib._src.defaults.defaults_classes import default_settings

    return default_settings


def lin(d):
    from magpylib._src.defaults.defaults_utility import linearize_dict

    return linearize_dict(d, separator=".")


def getp(root, path):
    o = root
    for p in path.split("."):
        o = getattr(o, p)
    return o


def setp(root, path, v):
    *par, last = path.split(".")
    o = root
    for p in par:
        o = getattr(o, p)
    setattr(o, last, v)


def nested(leaf, v):
    d = cur = {}
    parts = leaf.split(".")
    for p in parts[:-1]:
        cur[p] = {}
        cur = cur[p]
    cur[parts[-1]] = v
    return d


def norm(v):
    return json.dumps(v, sort_keys=True, default=_jd)


def _jd(x):
    if hasattr(x, "as_dict"):
        return x.as_dict()
    if callable(x):
        return getattr(x, "__qualname__", "callable")
    if isinstance(x, np.ndarray):
        return x.tolist()
    return repr(x)


_BASE = None


def BASE():
    global _BASE
    if _BASE is None:
        _BASE = {k: copy.deepcopy(v) for k, v in lin(DS().as_dict()).items()}
    return _BASE


def hard_reset():
    """harness-side reset of the global defaults: per-leaf attribute assignment from the import baseline"""
    base = BASE()
    ds = DS()
    now = lin(ds.as_dict())
    if norm(now) == norm(base):
        return True
    for k, v in base.items():
        if norm(now.get(k)) != norm(v):
            try:
                setp(ds, k, copy.deepcopy(v))
            except Exception:
                pass
    return norm(lin(ds.as_dict())) == norm(base)


def probe_values(factory, leaf, pool=POOL, want=2):
    """deterministically derive `want` distinct accepted (input, read-back) pairs and one rejected input"""
    ok, bad = [], None
    for c in pool:
        try:
            r = factory()
            setp(r, leaf, copy.deepcopy(c))
            b = getp(r, leaf)
            if b is not None and not any(norm(b) == norm(x[1]) for x in ok) and len(ok) < want:
                ok.append((c, b))
        except Exception:
            if bad is None:
                bad = c
    if bad is None:
        for c in BADPOOL:
            try:
                r = factory()
                setp(r, leaf, c)
            except Exception:
                bad = c
                break
    return ok, bad


# ------------------------------------------------------------------ actions
def obj_write(o, leaf, via, v):
    us = leaf.replace(".", "_")
    if via == "attr":
        setp(o.style, leaf, v)
    elif via == "update_kw":
        o.style.update(**{us: v})
    elif via == "update_dict":
        o.style.update({us: v})
    elif via == "update_nested":
        o.style.update(nested(leaf, v))
    elif via == "sub_update":
        *par, last = leaf.split(".")
        tgt = getp(o.style, ".".join(par)) if par else o.style
        tgt.update(**{last: v})
    elif via == "style_setter":
        o.style = nested(leaf, v)
    else:
        raise AssertionError(via)


def default_write(layer_root, leaf, via, v):
    """layer_root = 'display.style.<family>' path"""
    ds = DS()
    if via == "attr":
        setp(ds, layer_root + "." + leaf, v)
    elif via == "update":
        getp(ds, layer_root).update(**{leaf.replace(".", "_"): v})
    else:
        raise AssertionError(via)


def resolved(o, leaf, **show):
    from magpylib._src.style import get_style

    return getp(get_style(o, DS(), **show), leaf)


class Model:
    def __init__(self, fam, leaf, born):
        base = BASE()
        self.fam_key = f"display.style.{DEFAULT_FAMILY[fam]}.{leaf}"
        self.gen_key = f"display.style.{GENERIC_FAMILY[fam]}.{leaf}" if fam in GENERIC_FAMILY else None
        self.base_key = f"display.style.base.{leaf}"
        self.obj = born
        self.defaults = {}  # overrides of default leaves (normalised read-back values)

    def default_value(self, key):
        if key in self.defaults:
            return self.defaults[key]
        return BASE().get(key)

    def expected_resolved(self):
        if self.obj is not None:
            return self.obj
        if self.fam_key in BASE() and self.default_value(self.fam_key) is not None:
            return self.default_value(self.fam_key)
        if self.gen_key in BASE() and self.default_value(self.gen_key) is not None:
            return self.default_value(self.gen_key)
        if self.base_key in BASE():
            return self.default_value(self.base_key)
        return None

    def expected_defaults(self):
        d = dict(BASE())
        d.update(self.defaults)
        return d


def actions_for(fam, leaf, vals, tier_full, none_ok=True):
    base = BASE()
    acts = []
    for via in OBJ_VIAS:
        for i in (0, 1):
            acts.append(("obj", via, i))
    if none_ok:
        for via in (OBJ_VIAS if tier_full else ["attr", "update_kw", "update_nested"]):
            acts.append(("obj", via, None))  # assigning None clears the object's own value
    fk = f"display.style.{DEFAULT_FAMILY[fam]}.{leaf}"
    bk = f"display.style.base.{leaf}"
    if fk in base:
        acts += [("fam", "attr", 0), ("fam", "update", 1)]
    if fam in GENERIC_FAMILY and f"display.style.{GENERIC_FAMILY[fam]}.{leaf}" in base:
        acts += [("gen", "attr", 1), ("gen", "update", 0)]
    if bk in base:
        acts += [("base", "attr", 1), ("base", "update", 0)]
    acts.append(("reset",))
    return acts


SECOND_REDUCED = [("obj", "attr", 1), ("obj", "update_kw", 1), ("obj", "update_kw", None),
                  ("obj", "update_nested", None), ("fam", "attr", 0), ("gen", "attr", 1),
                  ("base", "attr", 1), ("reset",)]


def check_leaf(task):
    """explore all histories of one (family, leaf). Returns dict(transitions, histories, viols[], uncovered)."""
    fam, leaf, tier = task
    factory = FAMILIES[fam]
    if not hard_reset():
        return {"harness": "cannot restore defaults baseline"}
    vals, badval = probe_values(lambda: factory().style, leaf)
    if len(vals) < 2:
        return {"uncovered": f"{fam}:{leaf}", "transitions": 0, "histories": 0, "viols": []}
    try:  # is None an accepted value of this leaf (attribute notation decides)?
        probe = factory().style
        setp(probe, leaf, None)
        none_ok = True
    except Exception:
        none_ok = False
    acts = actions_for(fam, leaf, vals, tier == "thorough", none_ok)
    seconds = acts if tier == "thorough" else [a for a in acts if a in SECOND_REDUCED]
    us = leaf.replace(".", "_")
    viols = []
    ntrans = nhist = 0
    fresh_leaf = getp(factory().style, leaf)

    def report(kind, hist, detail):
        viols.append((kind, hist, detail))

    def run_history(born, hist):
        nonlocal ntrans, nhist
        nhist += 1
        hard_reset()
        # birth
        try:
            if born == "plain":
                o = factory()
                born_val = None
            elif born == "ctor_kw":
                o = factory(**{"style_" + us: copy.deepcopy(vals[0][0])})
                born_val = vals[0][1]
            elif born == "ctor_dict":
                o = factory(style=nested(leaf, copy.deepcopy(vals[0][0])))
                born_val = vals[0][1]
            _ = o.style
        except Exception as e:
            report(f"born-{born}-raises-{type(e).__name__}", [born], str(e)[:120])
            return
        bystander = factory()
        by_sig0 = norm(bystander.style.as_dict())
        cp = o.copy()
        cp_sig0 = norm(cp.style.as_dict())
        m = Model(fam, leaf, born_val)
        if born == "plain" and fresh_leaf is not None:
            # a fresh object must not carry an own value (else family/base defaults can never apply)
            m.obj = None
        steps = [born]
        all_acts = [("born",)] + list(hist)
        for act in all_acts:
            if act[0] != "born":
                steps.append(act)
                ntrans += 1
                o_sig_before = norm(o.style.as_dict())
                try:
                    if act[0] == "obj":
                        c, b = vals[act[2]] if act[2] is not None else (None, None)
                        obj_write(o, leaf, act[1], copy.deepcopy(c))
                        m.obj = b
                    elif act[0] in ("fam", "base", "gen"):
                        c, b = vals[act[2]]
                        root = "display.style." + {"fam": DEFAULT_FAMILY[fam], "base": "base", "gen": GENERIC_FAMILY.get(fam)}[act[0]]
                        default_write(root, leaf, act[1], copy.deepcopy(c))
                        m.defaults[root + "." + leaf] = b
                    elif act[0] == "reset":
                        _mp().defaults.reset()
                        m.defaults = {}
                except Exception as e:
                    report(f"{act[0]}-{act[1] if len(act) > 1 else ''}-raises-{type(e).__name__}", steps, str(e)[:120])
                    return
                if act[0] != "obj" and norm(o.style.as_dict()) != o_sig_before:
                    report("default-write-changed-object-style", steps, "")
                    return
            tag = "|".join(str(x) for x in act[:2])
            # 1 object layer
            got = getp(o.style, leaf)
            written = any(st_[0] == "obj" for st_ in steps[1:])
            exp_obj = m.obj if (m.obj is not None or written) else (fresh_leaf if born == "plain" else None)
            if norm(got) != norm(exp_obj):
                report(f"object-style-wrong-after-{tag}", steps, f"got {got!r} expected {exp_obj!r}")
                return
            # 2 resolution
            try:
                r = resolved(o, leaf)
                exp = m.expected_resolved()
                if norm(r) != norm(exp):
                    report(f"resolved-wrong-after-{tag}", steps, f"got {r!r} expected {exp!r} (obj={m.obj!r})")
                    return
                other = vals[1] if norm(exp) == norm(vals[0][1]) else vals[0]
                d_before = norm(lin(DS().as_dict()))
                r2 = resolved(o, leaf, **{"style_" + us: copy.deepcopy(other[0])})
                if norm(r2) != norm(other[1]):
                    report(f"show-kwarg-ignored-after-{tag}", steps, f"got {r2!r} expected {other[1]!r}")
                    return
                if norm(getp(o.style, leaf)) != norm(got) or norm(lin(DS().as_dict())) != d_before:
                    report("show-kwarg-leaks", steps, "")
                    return
            except Exception as e:
                report(f"get_style-raises-{type(e).__name__}", steps, str(e)[:120])
                return
            # 3 bystanders
            if norm(bystander.style.as_dict()) != by_sig0:
                report(f"bystander-object-changed-after-{tag}", steps, "")
                return
            if norm(cp.style.as_dict()) != cp_sig0:
                report(f"earlier-copy-changed-after-{tag}", steps, "")
                return
            # 4 defaults tree equals the model, leaf by leaf (after default-layer actions and at the end)
            if act[0] == "obj" and act is not all_acts[-1]:
                continue
            now = lin(DS().as_dict())
            expd = m.expected_defaults()
            diff = [k for k in expd if norm(now.get(k)) != norm(expd[k])]
            if diff:
                kind = "reset-does-not-restore" if act[0] == "reset" else f"defaults-wrong-after-{tag}"
                report(f"{kind}:{diff[0].replace('display.style.', '')}", steps, f"{diff[:4]}")
                return

    # fresh object carries no own value
    if fresh_leaf is not None:
        report("fresh-object-has-own-value", ["plain"], f"{fresh_leaf!r}")
    for a1 in acts:
        run_history("plain", [a1])
    for born in ("ctor_kw", "ctor_dict"):
        run_history(born, [])
        for a1 in seconds:
            run_history(born, [a1])
    for a1 in acts:
        for a2 in seconds:
            run_history("plain", [a1, a2])
    if tier == "thorough" and ("magnetization" in leaf or "arrow" in leaf):
        for a1 in seconds:
            for a2 in seconds:
                for a3 in SECOND_REDUCED:
                    if a3 in acts:
                        run_history("plain", [a1, a2, a3])
    # invalid value / invalid name: rejected and nothing changes
    if badval is not None:
        for via in OBJ_VIAS + ["ctor_kw"]:
            hard_reset()
            o = factory()
            o.style.update(**{us: copy.deepcopy(vals[0][0])})
            before = norm(o.style.as_dict())
            ntrans += 1
            try:
                if via == "ctor_kw":
                    factory(**{"style_" + us: badval}).style
                else:
                    obj_write(o, leaf, via, badval)
                report(f"invalid-value-accepted-{via}", [via, repr(badval)], "")
            except Exception:
                if norm(o.style.as_dict()) != before:
                    report(f"rejected-value-changed-style-{via}", [via, repr(badval)], "")
    hard_reset()
    o = factory()
    before = norm(o.style.as_dict())
    bogus = us + "_nonexistentproperty"
    for via, f in (("update_kw", lambda: o.style.update(**{bogus: 1})),
                   ("update_nested", lambda: o.style.update(nested(leaf + ".nonexistentproperty", 1))),
                   ("ctor_kw", lambda: factory(**{"style_" + bogus: 1}).style),
                   ("attr", lambda: setp(o.style, leaf + "x_nonexistent", 1))):
        ntrans += 1
        try:
            f()
            report(f"invalid-name-accepted-{via}", [via, bogus], "")
        except Exception:
            if norm(o.style.as_dict()) != before:
                report(f"rejected-name-changed-style-{via}", [via, bogus], "")
    hard_reset()
    return {"transitions": ntrans, "histories": nhist, "viols": viols, "values": [repr(vals[0][0]), repr(vals[1][0])],
            "bad": repr(badval)}


def check_default_leaf(task):
    """defaults tree: write each default leaf (attr / update), others untouched, reset restores everything"""
    key = task
    if not hard_reset():
        return {"harness": "cannot restore defaults baseline"}
    ds = DS()
    vals, bad = probe_values(lambda: (hard_reset(), ds)[1], key, want=2)
    hard_reset()
    if len(vals) < 1:
        return {"uncovered": f"defaults:{key}", "transitions": 0, "viols": []}
    viols, n = [], 0
    base = BASE()
    for via in ("attr", "update", "top_update"):
        for c, b in vals:
            hard_reset()
            n += 1
            try:
                if via == "attr":
                    setp(ds, key, copy.deepcopy(c))
                elif via == "update":
                    *par, last = key.split(".")
                    getp(ds, ".".join(par)).update(**{last: copy.deepcopy(c)})
                else:
                    ds.update(**{key.replace(".", "_"): copy.deepcopy(c)})
            except Exception as e:
                viols.append((f"default-write-{via}-raises-{type(e).__name__}", [key, repr(c)], str(e)[:100]))
                continue
            now = lin(ds.as_dict())
            wrong = [k for k in base if norm(now.get(k)) != norm(b if k == key else base[k])]
            if wrong:
                viols.append((f"default-write-{via}-wrong:{wrong[0]}", [key, repr(c)], f"{wrong[:4]}"))
                continue
            n += 1
            _mp().defaults.reset()
            now = lin(ds.as_dict())
            wrong = [k for k in base if norm(now.get(k)) != norm(base[k])]
            if wrong:
                viols.append((f"reset-does-not-restore:{wrong[0]}", [key, repr(c), "reset"], f"{wrong[:4]}"))
    hard_reset()
    return {"transitions": n, "viols": viols}


def mutate_everything(style):
    """change a set of leaves and every mutable container reachable from a style object"""
    n = 0
    for leaf, v in (("color", "blue"), ("opacity", 0.25), ("label", "changed"), ("description.text", "changed"),
                    ("path.line.width", 7), ("path.marker.symbol", "x"), ("legend.show", False)):
        try:
            setp(style, leaf, v)
            n += 1
        except Exception:
            pass
    for t in style.model3d.data:
        t.show = not t.show
        t.scale = (t.scale or 1) * 3
        if isinstance(t.kwargs, dict):
            t.kwargs["x"] = [42, 43]
            t.kwargs["added"] = 1
        if isinstance(t.args, tuple) and t.args and isinstance(t.args[0], list):
            t.args[0].append(99)
        n += 1
    if style.model3d.data:
        style.model3d.data.append(style.model3d.data[0])
    style.model3d.add_trace(backend="generic", constructor="Scatter3d", kwargs={"x": [5], "y": [5], "z": [5]}, show=False)
    return n + 1


def shared_mutables(a, b):
    from mc.props.C18 import reachable_mutables

    ra, rb = reachable_mutables(a), reachable_mutables(b)
    return sorted(f"{ra[k]} ~ {rb[k]}" for k in ra if k in rb)


def check_style_copy(task):
    """style.copy() and the resolved style returned by get_style() share nothing with the object's style"""
    _, fam = task
    from magpylib._src.style import get_style

    hard_reset()
    viols = []
    n = 0
    for variant in ("plain", "with_traces"):
        def mk():
            o = FAMILIES[fam]()
            o.style.update(color="red", opacity=0.5)
            if variant == "with_traces":
                o.style.model3d.add_trace(backend="generic", constructor="Scatter3d",
                                          kwargs={"x": [0, 1], "y": [0, 1], "z": [0, 1]}, show=True)
                o.style.model3d.add_trace(backend="matplotlib", constructor="plot", args=([0, 1], [0, 1], [0, 1]),
                                          kwargs={"ls": "--"}, show=False)
            return o
        def derive(o, how):
            """a second style that starts out with the values of o's style"""
            if how == "style.copy":
                return o.style.copy()
            if how == "get_style":
                return get_style(o, DS())
            if how == "obj.copy.style":
                return o.copy().style
            if how == "ctor_as_dict":
                return FAMILIES[fam](style=o.style.as_dict()).style
            if how == "setter_as_dict":
                b = FAMILIES[fam]()
                b.style = o.style.as_dict()
                return b.style
            if how == "update_as_dict":
                b = FAMILIES[fam]()
                b.style.update(o.style.as_dict())
                return b.style
            if how.endswith("_nodes"):   # the style NODES (sub-objects) of o given as values: a natural "take over that part" idiom
                nodes = {k[1:]: v for k, v in vars(o.style).items() if k.startswith("_") and hasattr(v, "as_dict") and hasattr(v, "update")}
                if how == "assign_nodes":
                    b = FAMILIES[fam]()
                    for k, v in nodes.items():
                        setattr(b.style, k, v)
                    return b.style
                if how == "ctor_nodes":
                    return FAMILIES[fam](**{"style_" + k: v for k, v in nodes.items()}).style
                if how == "update_nodes":
                    b = FAMILIES[fam]()
                    b.style.update(**nodes)
                    return b.style
                if how == "copykw_nodes":
                    return o.copy(**{"style_" + k: v for k, v in nodes.items()}).style
            if how == "assign_style_object":   # the whole style OBJECT of another object assigned
                b = FAMILIES[fam]()
                b.style = o.style
                return b.style
            if how == "same_data_list":   # the same user list of traces given to two objects
                b = FAMILIES[fam]()
                b.style.model3d.data = o.style.model3d.data
                return b.style
            raise AssertionError(how)

        for how in ("style.copy", "get_style", "obj.copy.style", "ctor_as_dict", "setter_as_dict", "update_as_dict", "same_data_list",
                    "assign_nodes", "ctor_nodes", "update_nodes", "copykw_nodes", "assign_style_object"):
            o = mk()
            before = norm(o.style.as_dict())
            dbefore = norm(lin(DS().as_dict()))
            cp = derive(o, how)
            if how == "assign_style_object" and norm(cp.as_dict()) != before:
                viols.append((f"assigned-style-object-not-taken-over:{variant}", [fam, how, variant], "b.style = a.style was accepted but b.style does not have a's values"))
            sh = shared_mutables(cp, o.style)
            if sh:
                viols.append((f"style-copy-shares-objects:{how}:{variant}", [fam, how, variant], f"{sh[:3]}"))
            n += mutate_everything(cp)
            if norm(o.style.as_dict()) != before:
                viols.append((f"style-copy-shares-state:{how}:{variant}", [fam, how, variant], "mutating the copy changed the original style"))
            if norm(lin(DS().as_dict())) != dbefore:
                viols.append((f"style-copy-leaks-to-defaults:{how}:{variant}", [fam, how, variant], ""))
            # and the other direction
            o = mk()
            cp = derive(o, how)
            sig_cp = norm(cp.as_dict())
            n += mutate_everything(o.style)
            if norm(cp.as_dict()) != sig_cp:
                viols.append((f"style-copy-shares-state-reverse:{how}:{variant}", [fam, how, variant], "mutating the original changed the copy"))
    hard_reset()
    return {"transitions": n, "viols": viols}


# ------------------------------------------------------------------ unobserved cross-leaf histories
PAIR_HISTORIES = ["ctor_dict+ctor_kw", "ctor_kw+ctor_dict", "plain;update_dict+kw", "ctor_kw;copy_dict+kw", "ctor_kw;setter_nested", "ctor_dict;setter_nested", "ctor_kw;setter_flat", "setter_nested;setter_nested",
                  "setter_flat;setter_nested", "ctor_kw+ctor_kw", "ctor_kw;copy_kw", "ctor_kw;read;update_kw",
                  "ctor_kw;read;setter_nested"]


def check_pairs(task):
    """Histories of two writes to two DIFFERENT leaves (A then B) of one object in which the style is not read
    between the writes (reading materialises the lazily created style object and hides merge defects); the
    style is observed once at the end and must equal the fresh style with exactly A and B replaced."""
    _, fam, leafA, tier = task
    factory = FAMILIES[fam]
    if not hard_reset():
        return {"harness": "cannot restore defaults baseline"}
    leaves = leaves_of(fam)
    vals = {}
    for lf in leaves:
        v, _ = probe_values(lambda: factory().style, lf, want=1)
        if v:
            vals[lf] = v[0]
    if leafA not in vals:
        return {"uncovered": f"{fam}:{leafA}", "transitions": 0, "histories": 0, "viols": []}
    fresh = lin(factory().style.as_dict())
    viols, n = [], 0
    (cA, bA) = vals[leafA]
    usA = leafA.replace(".", "_")
    for leafB in leaves:
        if leafB == leafA or leafB not in vals or leafB.startswith(leafA + ".") or leafA.startswith(leafB + "."):
            continue
        (cB, bB) = vals[leafB]
        usB = leafB.replace(".", "_")
        for h in PAIR_HISTORIES:
            n += 1
            try:
                steps = h.split(";")
                o = None
                for st in steps:
                    if st == "ctor_kw":
                        o = factory(**{"style_" + usA: copy.deepcopy(cA)})
                    elif st == "ctor_dict":
                        o = factory(style=nested(leafA, copy.deepcopy(cA)))
                    elif st == "ctor_dict+ctor_kw":     # nested dict and underscore keyword in ONE call
                        o = factory(style=nested(leafA, copy.deepcopy(cA)), **{"style_" + usB: copy.deepcopy(cB)})
                    elif st == "ctor_kw+ctor_dict":
                        o = factory(style=nested(leafB, copy.deepcopy(cB)), **{"style_" + usA: copy.deepcopy(cA)})
                    elif st == "plain":
                        o = factory()
                    elif st == "update_dict+kw":
                        o.style.update(nested(leafA, copy.deepcopy(cA)), **{usB: copy.deepcopy(cB)})
                    elif st == "copy_dict+kw":
                        o = factory().copy(style=nested(leafA, copy.deepcopy(cA)), **{"style_" + usB: copy.deepcopy(cB)})
                    elif st == "ctor_kw+ctor_kw":
                        o = factory(**{"style_" + usA: copy.deepcopy(cA), "style_" + usB: copy.deepcopy(cB)})
                    elif st in ("setter_nested", "setter_flat"):
                        first = o is None
                        if first:
                            o = factory()
                        lf, c = (leafA, cA) if first else (leafB, cB)
                        o.style = nested(lf, copy.deepcopy(c)) if st == "setter_nested" else {lf.replace(".", "_"): copy.deepcopy(c)}
                    elif st == "copy_kw":
                        o = o.copy(**{"style_" + usB: copy.deepcopy(cB)})
                    elif st == "read":
                        _ = o.style.as_dict()
                    elif st == "update_kw":
                        o.style.update(**{usB: copy.deepcopy(cB)})
                    else:
                        raise AssertionError(st)
                got = lin(o.style.as_dict())
            except Exception as e:
                viols.append((f"pair-raises-{type(e).__name__}:{h}", [leafA, leafB, h], str(e)[:100]))
                continue
            exp = dict(fresh)
            exp[leafA], exp[leafB] = bA, bB
            bad = [k for k in exp if k != "label" and norm(got.get(k)) != norm(exp[k])]
            if bad:
                which = "first-write-lost" if leafA in bad else "second-write-lost" if leafB in bad else "other-leaf-changed"
                viols.append((f"pair-{which}:{h}", [leafA, leafB, h], f"{bad[:3]} got {[got.get(k) for k in bad[:3]]} expected {[exp[k] for k in bad[:3]]}"))
    hard_reset()
    return {"transitions": n, "histories": n, "viols": viols}



# ------------------------------------------------------------------ resolution inside one show() call with several objects
def check_pipeline(task):
    """show() resolves the styles of all its objects in one pass (get_flatten_objects_properties_recursive). The style an
    object gets there must be the one it gets alone, whatever other objects - of other families - are resolved before it."""
    from magpylib._src.display.traces_utility import get_flatten_objects_properties_recursive as flat
    from magpylib._src.style import get_style

    _, famA, tier = task
    if not hard_reset():
        return {"harness": "cannot restore defaults baseline"}
    root = f"display.style.{famA}"
    leaves = [k[len(root) + 1:] for k in BASE() if k.startswith(root + ".")]
    viols, n = [], 0
    objs = {f: FAMILIES[f]() for f in FAMILIES}
    names = list(objs)

    def sig(style):
        d = lin(style.as_dict())
        d.pop("color", None)
        d.pop("label", None)
        return {k: norm(v) for k, v in d.items()}

    for leaf in leaves:
        hard_reset()
        vals, _ = probe_values(lambda: getp(DS(), root), leaf, want=1)
        hard_reset()
        if not vals:
            continue
        try:
            setp(DS(), root + "." + leaf, copy.deepcopy(vals[0][0]))
        except Exception:
            continue
        alone = {f: sig(get_style(objs[f], DS())) for f in names}
        lists = [(a, b) for a in names for b in names if a != b] + [tuple(names), tuple(reversed(names))]
        for lst in lists:
            n += 1
            try:
                res = flat(*[objs[f] for f in lst], colorsequence=["#111111", "#222222", "#333333"])
            except Exception as e:
                viols.append((f"pipeline-raises-{type(e).__name__}", [famA, leaf, list(lst)], str(e)[:100]))
                continue
            for f in lst:
                got = sig(res[objs[f]]["style"])
                bad = [k for k in alone[f] if got.get(k) != alone[f][k]]
                if bad:
                    viols.append((f"style-depends-on-other-objects-of-the-call:{f}", [famA, leaf, list(lst)],
                                  f"{f} resolved with {list(lst)}: {bad[:3]} = {[got.get(k) for k in bad[:3]]}, alone {[alone[f][k] for k in bad[:3]]}"))
                    break
    hard_reset()
    return {"transitions": n, "histories": n, "viols": viols}


# ------------------------------------------------------------------ Collection.set_children_styles
def check_children(task):
    """set_children_styles assigns a value to the matching leaf of every (nested) child - and to nothing else: other leaves,
    children without that leaf, the collection itself, bystanders, the defaults and the caller's dict stay as they were"""
    _, fam, tier = task
    if not hard_reset():
        return {"harness": "cannot restore defaults baseline"}
    mp = _mp()
    viols, n = [], 0
    for leaf in leaves_of(fam):
        vals, _ = probe_values(lambda: FAMILIES[fam]().style, leaf, want=1)
        if not vals:
            continue
        c, b = vals[0]
        us = leaf.replace(".", "_")
        for via in ("kw", "dict_us", "dict_nested", "dict+kw", "nonrecursive"):
            n += 1
            kids = {f: FAMILIES[f]() for f in ("magnet", "current", "sensor", "dipole", "triangle")}
            inner = mp.Collection(kids["dipole"], kids["triangle"])
            coll = mp.Collection(kids["magnet"], kids["current"], kids["sensor"], inner)
            bystander = FAMILIES[fam]()
            before = {f: lin(k.style.as_dict()) for f, k in kids.items()}
            cs0, is0, by0 = norm(coll.style.as_dict()), norm(inner.style.as_dict()), norm(bystander.style.as_dict())
            d0 = norm(lin(DS().as_dict()))
            arg = None
            try:
                if via == "kw":
                    coll.set_children_styles(**{us: copy.deepcopy(c)})
                elif via == "dict_us":
                    arg = {us: copy.deepcopy(c)}
                    coll.set_children_styles(arg)
                elif via == "dict_nested":
                    arg = nested(leaf, copy.deepcopy(c))
                    coll.set_children_styles(arg)
                elif via == "dict+kw":
                    arg = {"opacity": 0.25}
                    coll.set_children_styles(arg, **{us: copy.deepcopy(c)})
                else:
                    coll.set_children_styles(recursive=False, **{us: copy.deepcopy(c)})
            except Exception as e:
                if via == "dict_nested":
                    continue      # whether the nested form is accepted here is not documented
                viols.append((f"set_children_styles-raises-{type(e).__name__}:{via}", [fam, leaf, via], str(e)[:100]))
                continue
            reached = ("magnet", "current", "sensor") if via == "nonrecursive" else tuple(kids)
            for f, k in kids.items():
                now = lin(k.style.as_dict())
                for key, old in before[f].items():
                    want = old
                    if f in reached and key == leaf:
                        want = b
                    if f in reached and via == "dict+kw" and key == "opacity" and leaf != "opacity":
                        want = 0.25
                    if norm(now.get(key)) != norm(want):
                        viols.append((f"children-style-wrong:{via}", [fam, leaf, via], f"child {f} leaf {key}: {now.get(key)!r}, expected {want!r}"))
                        break
            if norm(coll.style.as_dict()) != cs0:   # (the inner collection is itself a child and takes matching leaves)
                viols.append((f"children-style-changed-the-collection:{via}", [fam, leaf, via], ""))
            if norm(bystander.style.as_dict()) != by0 or norm(lin(DS().as_dict())) != d0:
                viols.append((f"children-style-leaks:{via}", [fam, leaf, via], "bystander object or defaults changed"))
            if via == "dict+kw" and arg != {"opacity": 0.25}:
                viols.append((f"children-style-changed-caller-dict:{via}", [fam, leaf, via], f"caller dict is now {arg!r}"))
            if via == "dict_us" and list(arg) != [us]:
                viols.append((f"children-style-changed-caller-dict:{via}", [fam, leaf, via], f"caller dict is now {arg!r}"))
    hard_reset()
    return {"transitions": n, "histories": n, "viols": viols}


# ------------------------------------------------------------------ caller dictionaries
def check_caller_dicts(task):
    """a dictionary handed in by the caller (nested or underscore form) is read, never written"""
    from magpylib._src.style import get_style

    _, fam, tier = task
    if not hard_reset():
        return {"harness": "cannot restore defaults baseline"}
    factory = FAMILIES[fam]
    viols, n = [], 0
    for leaf in leaves_of(fam):
        vals, _ = probe_values(lambda: factory().style, leaf, want=1)
        if not vals:
            continue
        c, _b = vals[0]
        us = leaf.replace(".", "_")
        forms = {
            "ctor_style": lambda d: factory(style=d).style,
            "ctor_style+kw": lambda d: factory(style=d, style_opacity=0.5).style,
            "style_setter": lambda d: setattr(factory(), "style", d),
            "update_dict": lambda d: factory().style.update(d),
            "update_dict+kw": lambda d: factory().style.update(d, opacity=0.5),
            "copy_style": lambda d: factory().copy(style=d),
            "copy_style+kw": lambda d: factory().copy(style=d, style_opacity=0.5),
            "get_style_show_kwarg": lambda d: get_style(factory(), DS(), style=d),
            "get_style_show_kwarg+kw": lambda d: get_style(factory(), DS(), style=d, style_opacity=0.5),
            "defaults_update": lambda d: getp(DS(), f"display.style.{DEFAULT_FAMILY[fam]}").update(d),
        }
        forms_d = [("nested", lambda: nested(leaf, copy.deepcopy(c))), ("underscore", lambda: {us: copy.deepcopy(c)})]
        # both notations in ONE dictionary: a nested entry for this leaf next to an underscore entry for a sibling below the same node
        sib = next((l2 for l2 in leaves_of(fam) if l2 != leaf and "." in leaf and l2.split(".")[0] == leaf.split(".")[0]), None)
        if sib is not None:
            sv, _ = probe_values(lambda: factory().style, sib, want=1)
            if sv:
                forms_d.append(("mixed", lambda: {**nested(leaf, copy.deepcopy(c)), sib.replace(".", "_"): copy.deepcopy(sv[0][0])}))
        for dname, make in forms_d:
            for fname, f in forms.items():
                n += 1
                d = make()
                d0 = copy.deepcopy(d)
                try:
                    f(d)
                except Exception:
                    hard_reset()
                    continue
                if norm(d) != norm(d0):
                    viols.append((f"caller-dict-changed:{fname}:{dname}", [fam, leaf, fname], f"{d0!r} -> {d!r}"))
                hard_reset()
            # the caller goes on using the dictionary AFTER handing it over and before the object's style is first looked at:
            # the object keeps the values it was given
            for fname in ("ctor_style", "ctor_style+kw", "copy_style"):
                n += 1
                d = make()
                try:
                    o = factory(style=d) if fname == "ctor_style" else factory(style=d, style_opacity=0.5) if fname == "ctor_style+kw" else factory().copy(style=d)
                    want = getp(factory(style=copy.deepcopy(d)).style, leaf) if fname != "ctor_style+kw" else getp(factory(style=copy.deepcopy(d), style_opacity=0.5).style, leaf)
                except Exception:
                    hard_reset()
                    continue
                def poison(x):
                    for k in list(x):
                        if isinstance(x[k], dict):
                            poison(x[k])
                        else:
                            x[k] = copy.deepcopy(_b)
                poison(d)
                d["label"] = "edited-later"
                got = getp(o.style, leaf)
                if norm(got) != norm(want) or o.style.label == "edited-later":
                    viols.append((f"caller-dict-later-edit-leaks:{fname}:{dname}", [fam, leaf, fname], f"style.{leaf}={got!r} instead of {want!r}, label={o.style.label!r}"))
                hard_reset()
    return {"transitions": n, "histories": n, "viols": viols}


# ------------------------------------------------------------------ the stored value depends on the assigned value only
COLOR_VALUES = [(1, 0, 0), (1.0, 0.0, 0.0), (True, False, False), (0, 1, 1), (0.0, 1.0, 1.0), (255, 0, 0), (0.5, 0.5, 0.5), [1, 0, 0], [1.0, 0.0, 0.0],
                1, 1.0, True, 0, 0.0, False, 0.5, "0.5", "1", "red", "RED", " red", "r", "#f00", "#ff0000", "#FF0000", "rgb(255,0,0)",
                "RGB(255, 0, 0)", (1, 0, 0, 1), (1.0, 0.0, 0.0, 0.5), (0, 0, 0), (0.0, 0.0, 0.0), None]
_VH_SCRIPT = r"""
import sys, json
sys.path.insert(0, %(verif)r)
from mc import common
common.bind_repo()
import magpylib as magpy
from mc.props.C20 import COLOR_VALUES
arg = json.loads(sys.argv[1])
leaves = ("color", "magnetization.color.north", "path.line.color")
def assign(i, leaf):
    o = magpy.magnet.Cuboid(dimension=(1, 1, 1), polarization=(0, 0, 1))
    node = o.style
    *par, last = leaf.split(".")
    for q in par:
        node = getattr(node, q)
    try:
        setattr(node, last, COLOR_VALUES[i])
        return repr(getattr(node, last))
    except Exception as e:
        return "EXC " + type(e).__name__
def both(j):
    return [assign(j, leaves[(j %% 2) + 1]), assign(j, leaves[0])]
if arg.get("only") is not None:
    out = [both(arg["only"])]
else:
    assign(arg["first"], leaves[0])
    out = [both(j) for j in range(len(COLOR_VALUES))]
print("RESULT " + json.dumps(out))
"""


def _vh_run(first=None, only=None):
    import os
    import subprocess
    import sys

    script = _VH_SCRIPT % {"verif": common.VERIF}
    r = subprocess.run([sys.executable, "-c", script, json.dumps({"first": first, "only": only})], capture_output=True, text=True,
                       env=dict(os.environ), cwd=common.VERIF, timeout=300)
    for line in r.stdout.splitlines():
        if line.startswith("RESULT "):
            return json.loads(line[7:])
    raise RuntimeError("value-history subprocess failed: " + (r.stderr or r.stdout)[-300:])


# the colour formats the library documents in its own error message: '#' + 3 or 6 hex digits, 'rgb(r,g,b)', an rgb tuple,
# a number between 0 and 1, a named CSS colour
INVALID_COLORS = ["#", "#1", "#12", "#1234", "#12345", "#2E91E", "#1234567", "#12345g", "#ggg", "12345", "rgb(1,2)", "rgb(a,b,c)", "notacolor", "",
                  (1, 2), (0, 0, 260), -0.5, 1.5, "1.5"]
VALID_COLORS = ["#123", "#abc", "#ABC", "#123456", "#ABCDEF", "#a1B2c3", "rgb(1,2,3)", (1, 2, 3), (0.1, 0.2, 0.3), 0.5, "0.5", 0, 1, "red", "k"]


def check_color_spec(task):
    """every documented colour format is accepted and every malformed one rejected, through every notation and layer"""
    import magpylib as magpy
    from magpylib._src.style import get_style

    hard_reset()
    viols, n = [], 0
    routes = {
        "attr": lambda v: setattr(FAMILIES["magnet"]().style, "color", v),
        "attr_nested_leaf": lambda v: setp(FAMILIES["magnet"]().style, "magnetization.color.north", v),
        "update_kw": lambda v: FAMILIES["magnet"]().style.update(color=v),
        "update_nested": lambda v: FAMILIES["magnet"]().style.update({"path": {"line": {"color": v}}}),
        "ctor_kw": lambda v: FAMILIES["magnet"](style_color=v).style,
        "ctor_dict": lambda v: FAMILIES["sensor"](style={"color": v}).style,
        "copy_kw": lambda v: FAMILIES["current"]().copy(style_color=v).style,
        "family_default": lambda v: setp(DS(), "display.style.magnet.magnetization.color.south", v),
        "base_default": lambda v: setp(DS(), "display.style.base.color", v),
        "colorsequence": lambda v: setattr(magpy.defaults.display, "colorsequence", ["red", v]),
        "show_kwarg": lambda v: get_style(FAMILIES["magnet"](), DS(), style_color=v),
    }
    for kind, vals in (("invalid", INVALID_COLORS), ("valid", VALID_COLORS)):
        for v in vals:
            for rname, f in routes.items():
                n += 1
                try:
                    f(copy.deepcopy(v))
                    got = "accepted"
                except Exception:
                    got = "rejected"
                hard_reset()
                if (kind == "invalid") != (got == "rejected"):
                    viols.append((f"{kind}-colour-{got}:{rname}", ["color", repr(v), rname], f"{v!r} is {kind} by the documented formats but was {got}"))
    return {"transitions": n, "viols": viols}


def check_value_history(task):
    """what a style leaf stores depends on the assigned value only - not on values that were assigned before, to this or any
    other object (validators must not remember equal-comparing values of another type). Reference: the same single assignment
    in a fresh interpreter; history: value i assigned first, then every value of the alphabet to fresh objects, in one process."""
    _, i = task
    if task[0] == "valuefresh":
        return {"transitions": 1, "viols": [], "fresh": _vh_run(only=i)[0]}
    return {"transitions": len(COLOR_VALUES), "viols": [], "after": _vh_run(first=i)}


def leaves_of(fam):
    o = FAMILIES[fam]()
    out = []
    for k in lin(o.style.as_dict()):
        if k == "label" or k.startswith("model3d.data"):
            continue
        out.append(k)
    return out


def work(task):
    try:
        if task[0] == "default":
            return check_default_leaf(task[1])
        if task[0] == "stylecopy":
            return check_style_copy(task)
        if task[0] == "pairs":
            return check_pairs(task)
        if task[0] == "pipeline":
            return check_pipeline(task)
        if task[0] == "children":
            return check_children(task)
        if task[0] == "callerdict":
            return check_caller_dicts(task)
        if task[0] in ("valuehist", "valuefresh"):
            return check_value_history(task)
        if task[0] == "colorspec":
            return check_color_spec(task)
        return check_leaf(task)
    except Exception as e:
        import traceback

        return {"harness": f"{task}: {type(e).__name__}: {e} {traceback.format_exc()[-300:]}"}


def run(tier, seed):
    common.bind_repo()
    BASE()
    tasks = []
    for fam in FAMILIES:
        if tier == "quick" and fam == "triangularmesh":
            continue
        for leaf in leaves_of(fam):
            tasks.append((fam, leaf, tier))
    dtasks = [("default", k) for k in BASE()] + [("stylecopy", fam) for fam in FAMILIES]
    dtasks += [("callerdict", fam, tier) for fam in ("magnet", "current", "sensor", "dipole", "triangle")]
    dtasks += [("children", fam, tier) for fam in ("magnet", "current", "sensor", "dipole", "triangle")]
    dtasks += [("pipeline", fam, tier) for fam in ("magnet", "current", "sensor", "dipole", "triangle", "triangularmesh", "base")]
    dtasks += [("pairs", fam, leaf, tier) for fam in FAMILIES for leaf in leaves_of(fam)
               if not (tier == "quick" and fam in ("triangularmesh", "triangle"))]
    nval = len(COLOR_VALUES)
    firsts = range(nval) if tier == "thorough" else [0, 1, 2, 9, 10, 11, 18, 22, 27]
    dtasks += [("valuefresh", i) for i in range(nval)] + [("valuehist", i) for i in firsts] + [("colorspec", 0)]
    res = common.pmap(work, tasks + dtasks, chunk=1)
    viols, harness, uncovered = [], [], []
    fresh = {t[1]: r.get("fresh") for t, r in zip(tasks + dtasks, res) if t[0] == "valuefresh" and not r.get("harness")}
    for t, r in zip(tasks + dtasks, res):
        if t[0] == "valuehist" and not r.get("harness") and len(fresh) == nval:
            r["viols"] += _value_history_viols(t[1], r["after"], [fresh[j] for j in range(nval)])
    trans = hist = 0
    samples = []
    for t, r in zip(tasks + dtasks, res):
        if r.get("harness"):
            harness.append(r["harness"])
            continue
        if r.get("uncovered"):
            uncovered.append(r["uncovered"])
            continue
        trans += r["transitions"]
        hist += r.get("histories", 0)
        if len(samples) < 3 and r.get("values"):
            samples.append({"family": t[0], "leaf": t[1], "values": r["values"], "invalid": r["bad"]})
        for kind, steps, detail in r["viols"]:
            tname = f"{t[0]}.{t[1]}" if t[0] != "pairs" else f"{t[1]}.{t[2]}"
            if t[0] in ("pipeline", "children", "callerdict"):
                tname = f"{t[1]}.{steps[1]}"
            if t[0] == "valuehist":
                tname = "valuehistory.color"
            if t[0] == "colorspec":
                tname = "colorspec"
            viols.append({"key": f"C20|{tname}|{kind}",
                          "what": f"{tname}: {kind} history={steps} {detail}",
                          "case": {"task": list(t), "kind": kind}, "observed": [kind, detail]})
    harness = harness[:5]
    cov = {
        "states": len(tasks) + len(dtasks), "transitions": trans, "traces_validated_against_impl": hist,
        "samples": samples or [{"family": "magnet", "leaf": "color"}],
        "exhaustive": True,
        "object_leaves": len(tasks), "default_leaves": len(dtasks),
        "uncovered_leaves": uncovered,
        "rule": "per style leaf: every history of <=2 actions (6 object notations x 2 values, family/base default "
                "writes, reset) from 3 births, checked after every step against a layered flat-dict model; per default "
                "leaf: write via 3 notations, whole tree compared, reset() compared with the import baseline",
    }
    if trans < 1000:
        harness.append("vacuous: fewer than 1000 transitions")
    return {"coverage": cov, "violations": viols, "harness_errors": harness,
            "assumptions": ["the import-time defaults are the baseline reset() must restore",
                            "a fresh object has no own style value, so family/base defaults must apply to it"]}


def _value_history_viols(first, after, fresh):
    out = []
    for j, got in enumerate(after):
        if got != fresh[j]:
            out.append((f"stored-value-depends-on-earlier-assignments:{type(COLOR_VALUES[j]).__name__}",
                        ["color", f"first={COLOR_VALUES[first]!r}", f"then={COLOR_VALUES[j]!r}"], f"stored {got} ; alone in a fresh interpreter {fresh[j]}"))
            break
    return out


def replay(case):
    t = case["task"]
    if t[0] == "valuehist":    # self-contained: the references (one fresh interpreter per value) are recomputed
        after = _vh_run(first=t[1])
        fresh = [_vh_run(only=j)[0] for j in range(len(COLOR_VALUES))]
        vs = [v for v in _value_history_viols(t[1], after, fresh) if v[0] == case.get("kind")]
        return {"violated": bool(vs), "observed": [[v[0], [str(x) for x in v[1]], v[2]] for v in vs][:5]}
    r = work(tuple(t))
    vs = [v for v in r.get("viols", []) if v[0] == case.get("kind")]
    return {"violated": bool(vs), "observed": [[v[0], [str(x) for x in v[1]], v[2]] for v in vs][:5]}
