"""CLI: python -m mc.run <ID> --tier quick|thorough [--replay FILE]

exit 0  property held on everything explored (known findings are printed, not alarmed)
exit 1  at least one unlisted violation, each as `VIOLATION property=<id> replay=<path>`
exit 2  harness error / vacuous exploration / nondeterministic replay (a broken check, not an alarm)
"""
import argparse
import hashlib
import importlib
import json
import os
import re
import subprocess
import sys
import traceback

from mc import common
from mc import findings as findings_mod

MAX_CONFIRM = 6  # unlisted violation keys confirmed by double replay per run
MAX_REPLAY_FILES = 40


def _safe(key):
    s = re.sub(r"[^A-Za-z0-9_.=+-]+", "_", key)[:120]
    return s + "-" + hashlib.sha1(key.encode()).hexdigest()[:8]


def _digest(obj):
    return hashlib.sha1(json.dumps(common.jsonable(obj), sort_keys=True).encode()).hexdigest()[:16]


def do_replay(pid, path):
    common.bind_repo()
    mod = importlib.import_module(f"mc.props.{pid}")
    with open(path) as f:
        rep = json.load(f)
    res = mod.replay(rep["case"])
    print(f"replay property={pid} key={rep.get('key')}")
    print("  what:     ", rep.get("what"))
    print("  observed: ", json.dumps(common.jsonable(res.get("observed")))[:2000])
    print(f"REPLAY violated={bool(res['violated'])} digest={_digest(res.get('observed'))}")
    return 1 if res["violated"] else 0


def confirm(pid, path):
    """Replay twice in fresh processes; both must reproduce the violation identically."""
    outs = []
    for _ in range(2):
        p = subprocess.run(
            [sys.executable, "-m", "mc.run", pid, "--replay", path],
            cwd=common.VERIF,
            capture_output=True,
            text=True,
            timeout=900,
            env=dict(os.environ, PYTHONHASHSEED="0"),
        )
        m = re.search(r"REPLAY violated=(\w+) digest=(\w+)", p.stdout)
        outs.append((p.returncode, m.group(1) if m else None, m.group(2) if m else p.stderr[-300:]))
    ok = outs[0] == outs[1] and outs[0][1] == "True"
    return ok, outs


def main(argv=None):
    ap = argparse.ArgumentParser()
    ap.add_argument("pid")
    ap.add_argument("--tier", default=os.environ.get("VERIF_TIER", "quick"), choices=["quick", "thorough"])
    ap.add_argument("--replay")
    ap.add_argument("--seed", type=int, default=int(os.environ.get("VERIF_SEED", "0") or 0))
    args = ap.parse_args(argv)
    pid = args.pid
    if args.replay:
        sys.exit(do_replay(pid, args.replay))

    common.pin_environment()
    timer = common.Timer()
    mod = importlib.import_module(f"mc.props.{pid}")
    evidence_path = os.path.join(os.environ.get("VERIF_EVIDENCE_DIR") or os.path.join(common.VERIF, "evidence"), f"{pid}.json")
    try:
        res = mod.run(args.tier, args.seed)
    except Exception:  # harness failure: never an alarm
        traceback.print_exc()
        print(f"HARNESS-ERROR property={pid}")
        sys.exit(2)

    cov = res["coverage"]
    viols = res.get("violations", [])
    harness_errors = list(res.get("harness_errors", []))

    # group by key, keep first case per key (enumeration order => simplest first)
    bykey = {}
    for v in viols:
        bykey.setdefault(v["key"], []).append(v)
    known = findings_mod.load(pid)
    matched, unlisted = {}, {}
    for key, vs in bykey.items():
        ent = findings_mod.match(known, key)
        (matched if ent is not None else unlisted)[key] = (vs, ent)

    for key, (vs, ent) in matched.items():
        print(f"KNOWN-FINDING: property={pid} key={key} ({len(vs)} case(s)) {ent['what']}")

    rdir = os.path.join(os.environ.get("VERIF_REPLAY_DIR") or os.path.join(common.VERIF, "replays"), pid)
    alarms = 0
    nondet = 0
    for i, (key, (vs, _)) in enumerate(unlisted.items()):
        v = vs[0]
        if i >= MAX_REPLAY_FILES:
            print(f"VIOLATION property={pid} replay=- key={key} (replay file cap reached) {v['what']}")
            alarms += 1
            continue
        path = os.path.join(rdir, _safe(key) + ".json")
        common.jdump({"property": pid, "key": key, "what": v["what"], "case": v["case"],
                      "observed": v.get("observed"), "n_cases_with_key": len(vs)}, path)
        if i < MAX_CONFIRM:
            ok, outs = confirm(pid, path)
            if not ok:
                nondet += 1
                print(f"NONDETERMINISM property={pid} key={key} replay={path} outcomes={outs}")
                continue
        print(f"VIOLATION property={pid} replay={path} key={key} cases={len(vs)} :: {v['what']}")
        alarms += 1

    cov.setdefault("known_findings_matched", sorted(matched))
    cov.setdefault("unlisted_violation_keys", sorted(unlisted))
    ev = {
        "property_id": pid,
        "tier": args.tier,
        "seed": args.seed,
        "level": mod.LEVEL,
        "coverage": common.jsonable(cov),
        "assumptions": res.get("assumptions", []),
        "wall_s": timer(),
        "violations": alarms,
    }
    common.jdump(ev, evidence_path)

    summary = {k: cov[k] for k in ("states", "transitions", "evaluations", "distinct_nontrivial",
                                   "traces_validated_against_impl", "exhaustive") if k in cov}
    print(f"SUMMARY property={pid} tier={args.tier} seed={args.seed} wall={ev['wall_s']}s {summary} "
          f"known={len(matched)} unlisted={len(unlisted)}")
    for h in harness_errors:
        print(f"HARNESS-ERROR property={pid} {h}")
    if alarms:
        sys.exit(1)
    if harness_errors or nondet:
        sys.exit(2)
    sys.exit(0)


if __name__ == "__main__":
    main()
