#!/usr/bin/env python3
"""Run the repository's pinned test command in DIR (default /repo) and compare the set of passing
tests with /root/.vp/BASELINE.json's stable_pass list.

usage: tools/baseline.py [DIR] [--guard-off]
exit 0 iff every stable_pass test passes.
"""
import json
import os
import subprocess
import sys
import tempfile
import xml.etree.ElementTree as ET


def main():
    args = [a for a in sys.argv[1:] if not a.startswith("--")]
    d = args[0] if args else "/repo"
    base = json.load(open("/root/.vp/BASELINE.json"))
    want = set(base["stable_pass"])
    with tempfile.TemporaryDirectory() as tmp:
        junit = os.path.join(tmp, "j.xml")
        env = dict(os.environ)
        env.pop("MAGPYLIB_VERIF", None)
        p = subprocess.run(
            ["/venv/bin/python", "-m", "pytest", "-ra", "-q", "-p", "no:cacheprovider", "--timeout=900",
             "--continue-on-collection-errors", f"--junitxml={junit}"],
            cwd=d, env=env, capture_output=True, text=True)
        passed = set()
        failed = set()
        for tc in ET.parse(junit).getroot().iter("testcase"):
            name = f"{tc.get('classname')}::{tc.get('name')}"
            if any(ch.tag in ("failure", "error", "skipped") for ch in tc):
                failed.add(name)
            else:
                passed.add(name)
    missing = sorted(want - passed)
    print(f"baseline dir={d} passed={len(passed)} failed={len(failed)} stable_pass={len(want)} missing={len(missing)}")
    for m in missing[:40]:
        print("  MISSING", m)
    print(p.stdout.strip().splitlines()[-1] if p.stdout.strip() else "")
    sys.exit(1 if missing else 0)


if __name__ == "__main__":
    main()
