#!/usr/bin/env python3
"""Generate MANIFEST.json from tools/manifest_src.py (single source of truth for the check table)."""
import json, os, sys
sys.path.insert(0, os.path.dirname(os.path.abspath(__file__)))
from manifest_src import CHECKS, NOT_APPLICABLE, NOTES, HOOKS, ENGINES
PY = "/venv/bin/python"
checks = []
for pid, c in CHECKS.items():
    checks.append({
        "property_id": pid,
        "quick_cmd": f"{PY} -m mc.run {pid} --tier quick",
        "thorough_cmd": f"{PY} -m mc.run {pid} --tier thorough",
        "evidence_file": f"/verif/evidence/{pid}.json",
        "replay_cmd_template": f"{PY} -m mc.run {pid} --replay {{path}}",
        "engine": c["engine"],
        "level_claimed": {"category": c["level"], "text": c["text"], "design_ref": c["design_ref"]},
        "level_note": c["note"],
        "technique": c["technique"],
    })
m = {
    "version": 1,
    "setup_cmd": f"{PY} -c \"import sys; sys.path.insert(0,'/verif'); import mc.run, numpy, scipy, jsonschema; print('ok')\"",
    "hooks": HOOKS,
    "engines": ENGINES,
    "checks": checks,
    "notes": NOTES,
    "not_applicable": NOT_APPLICABLE,
}
out = os.path.join(os.path.dirname(os.path.dirname(os.path.abspath(__file__))), "MANIFEST.json")
json.dump(m, open(out, "w"), indent=1)
import jsonschema
jsonschema.validate(m, json.load(open("/root/.vp/MANIFEST.schema.json")))
ids = [json.loads(l)["id"] for l in open(os.path.join(os.path.dirname(out), "properties.jsonl"))]
cov = set(CHECKS) | {n["property_id"] for n in NOT_APPLICABLE}
assert cov == set(ids), (set(ids) - cov, cov - set(ids))
print("MANIFEST ok:", len(checks), "checks,", len(NOT_APPLICABLE), "not claimed")
