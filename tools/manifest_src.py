HOOKS = {
    "guard": "MAGPYLIB_VERIF",
    "enable": "no source hooks: observation and fault injection are external (public API, sys.settrace); "
              "checks export MAGPYLIB_VERIF=1 for uniformity only",
    "baseline_off_cmd": "python3 /verif/tools/baseline.py /repo",
    "source_commits": [],
    "add_only": True,
}
ENGINES = [
    {"name": "grid", "path": "/verif/mc/props", "serves_properties": ["C01", "C02", "C04", "C05", "C06", "C07", "C12", "C14", "C15", "C16", "C17", "C19"],
     "kind_free_text": "complete Cartesian products of finite input alphabets executed on the real code and compared with an explicit oracle or metamorphic relation"},
    {"name": "fault", "path": "/verif/mc/props/C08.py", "serves_properties": ["C08"],
     "kind_free_text": "fault-point enumerator: public-API fault menu x position and sys.settrace call-level injection, snapshot oracle"},
    {"name": "hist", "path": "/verif/mc/props", "serves_properties": ["C03", "C09", "C10", "C11", "C13", "C18", "C20"],
     "kind_free_text": "explicit-state BFS over the real API: states rebuilt by history replay on fresh "
                       "objects, canonical form by names, invariant + reference model after every transition"},
]
NOTES = ("All checks: /venv/bin/python -m mc.run <ID> --tier quick|thorough, cwd=/verif. Exit 0 held / "
         "1 VIOLATION / 2 harness error. known_findings.json is read-only at run time.")
CHECKS = {
    "C11": dict(
        engine="hist", level="model_checking", design_ref="DESIGN.md §4 C11",
        technique="explicit-state BFS of tree-edit histories on the real Collection API, invariant after every transition, reference forest model on returns",
        text="Every tree-editing operation of a ~400 (U4) / ~1100 (U6) op alphabet, incl. failing calls, is applied "
             "to every reachable consistent forest over a 4-object universe (closure, fixpoint) and from 8 seed "
             "forests over a 6-object universe; the forest invariant is evaluated after every transition.",
        note="Bounded by universe size (4 resp. 6 objects) and alphabet (≤2 arguments per call); new collections "
             "created by + / Collection() are checked but not expanded; trusted: harness invariant code."),
}
CHECKS["C09"] = dict(
    engine="hist", level="model_checking", design_ref="DESIGN.md §4 C09, Appendix A.1",
    technique="explicit-state BFS of move/rotate/setter histories on real objects against a reference path model; exhaustive integer box on the padding seam",
    text="All 404 ops (move/rotate with every input form, anchor form, start in auto,-6..6; setters; reset_path) are applied to "
         "every state reached within depth 2 from paths of length 1..4 and compared with the reference path model after every "
         "transition; every rotate_from_* form is compared with rotate(); 35 malformed calls must leave byte-identical state; the "
         "padding arithmetic is enumerated on the whole box L,n in 1..24, start in auto,-60..60; path-length abstraction to fixpoint (L<=12).",
    note="Bounded by depth (2 exact; 3 on a reduced alphabet in thorough), by path lengths 1..4 initial and fixed generic numeric values; "
         "trusted: mc/oracles/pathmodel.py (Appendix A.1) as the reading of the documented semantics.")
CHECKS["C08"] = dict(
    engine="fault", level="fault_enumeration", design_ref="DESIGN.md §4 C08, §2.3",
    technique="exhaustive fault-point enumeration (public-API faults x position, plus every Python-level call beneath getBH_level2 raising) with full before/after snapshots on the real code",
    text="Every configuration (source lists up to length 2/3 over 7 source kinds x per-object path lengths x 7 observer kinds x 4 entry "
         "points) is crossed with 21 fault kinds at every position they can strike; thorough and quick additionally make the k-th "
         "Python-level call beneath getBH_level2 raise, for every k. Snapshot of all involved objects, caller arrays and global "
         "defaults must be byte-identical afterwards and a repeated call must agree.",
    note="Faults are not injected into the statements of the restoring `finally` block; generator frames are not fault points; "
         "style compared via style.as_dict(). Trusted: snapshot code in mc/props/C08.py.")
CHECKS["C10"] = dict(
    engine="hist", level="model_checking", design_ref="DESIGN.md §4 C10, Appendix A.2",
    technique="explicit-state BFS of move/rotate/setter histories on real collection trees with an index-mapped relative-pose oracle",
    text="Every op of a ~100-op alphabet (move/rotate/rotate_from_angax with all input, anchor and start forms; position/orientation "
         "setters; reset_path) is applied to every object of three tree shapes (flat, nested depth 2 and 3, distinct off-origin "
         "collection poses) with path lengths 1..3, BFS depth 2; after every transition each descendant's pose relative to the "
         "operated collection must equal the pre-state's at the mapped index, everything outside the subtree must be byte-identical, "
         "and the field seen by the collection's own sensor must obey the same index relation.",
    note="Ops on a collection are enabled only if its whole subtree shares its path length (the property's precondition). Bounded by "
         "tree shapes, depth 2 (3 reduced in thorough), fixed generic numeric values; trusted: pathmodel index map.")
CHECKS["C18"] = dict(
    engine="hist", level="model_checking", design_ref="DESIGN.md §4 C18",
    technique="exhaustive enumeration of (object state x copy kwargs x one mutation x side) histories on real objects with deep signatures and an identity walk",
    text="For 15 object kinds (all sources, Sensor, TriangularMesh, three collection trees) x path length x 3 style states x with/without "
         "parent x 11 copy-kwarg forms, copy() is executed and checked (class, equality modulo label, field, parentless, consistent "
         "forest in the copy, original and its parent untouched against a twin, no shared mutable object or buffer, caller arrays not "
         "aliased); then each of ~40-50 mutations is applied to one side of a fresh pair and the other side must stay byte-identical.",
    note="One mutation per pair (depth 2 histories); quick restricts the full mutation alphabet to a subset of states, thorough runs the "
         "complete product. Plain functions may be shared. Trusted: deep_sig / reachable_mutables walkers.")
CHECKS["C20"] = dict(
    engine="hist", level="model_checking", design_ref="DESIGN.md §4 C20",
    technique="per-leaf exhaustive enumeration of style-assignment histories (notation x layer x value, reset) on the real style/defaults objects against a layered flat-dict precedence model",
    text="For every style leaf of 5 (thorough 6) object families (introspected, ~140 leaves) all histories of up to 2 actions (six "
         "object-level notations x 2 probed values, family-default and base-default writes in 2 notations, defaults.reset()) from three "
         "births (plain, constructor underscore keyword, constructor nested dict) are executed; after every step the object's style, the "
         "resolved style with and without a show() keyword, a bystander object, an earlier copy and the complete defaults tree are "
         "compared with the model; invalid values and names must be rejected without effect; every one of the 158 default leaves is "
         "written in 3 notations and reset() is compared with the import baseline.",
    note="Leaf values are derived by probing a fixed candidate pool (leaves without two accepted values are listed as uncovered in the "
         "evidence). The harness restores the global defaults itself between histories (per-leaf assignment, verified). Trusted: the "
         "layered model in mc/props/C20.py (object > family default > base default; show kwarg on top).")
CHECKS["C04"] = dict(
    engine="grid", level="exploration", design_ref="DESIGN.md §4 C04",
    technique="bounded-exhaustive enumeration of sensor layouts (pixel shape x path kind x handedness x pixel_agg x sources x path lengths x call form) against an explicit per-pixel oracle",
    text="Every layout of 1 sensor (70 configurations = 5 pixel shapes x 7 path kinds x 2 handedness) x 6 aggregations x 4 call forms, "
         "every pair (first sensor any configuration, second from a menu of 8; thorough: any x any) and triples from menus, crossed "
         "with 2 source sets and source/sensor path lengths {1,3}, is evaluated and compared element by element with R_m^T B(R_m pix + p_m) "
         "(x negated for left-handed sensors, named NumPy reduction over pixels).",
    note="Path kinds include the shortcuts' edge cases: unit rotation first then rotated, orientation returning to its start, +a/-a "
         "conjugate quaternions. Reference global field = getB(sources, ndarray) of the same library (array observers bypass sensor "
         "handling). rel. tolerance 1e-10.")
CHECKS["C06"] = dict(
    engine="grid", level="exploration", design_ref="DESIGN.md §4 C06",
    technique="bounded-exhaustive enumeration of call compositions and batch sizes on the real code, each output element compared with the single-object single-observer static evaluation",
    text="All ordered source lists up to length 2 (thorough 3) over 15 concrete sources (Polylines with 2/3/3/5 vertices, four "
         "TriangularMeshes with 4/12/12/12 faces, Tetrahedron, Cuboid, CylinderSegment, Cylinder, Circle, two CustomSources) x per-object "
         "path length 1..3 (rotating paths) x 4 observer forms x B/H/J, mesh sequences up to length 4, aliased duplicates; plus batch "
         "sweeps n=1..20 in every cyclic rotation of a row alphabet (incl. on-surface, r=r0, axis, Taylor-switch rows) for Cylinder, "
         "Circle, CylinderSegment, Cuboid, mesh and Polyline. Every element is compared with the element-by-element evaluation.",
    note="rel. tolerance 1e-10 (measured scalar/vector routine differences <= 4e-16); the reference is the library's own one-source, "
         "one-observer static call, i.e. this decides independence from the rest of the call, not absolute correctness (C01).")
CHECKS["C05"] = dict(
    engine="grid", level="exploration", design_ref="DESIGN.md §4 C05",
    technique="bounded-exhaustive enumeration of source-list arrangements (nested collections, duplicates, orders), tree-edit histories and excitation scalings, compared with explicit sums of single-leaf calls",
    text="Every ordered list of up to 3 (thorough 4) items over {bare source, collections of 1-3 sources, nested collections of depth 2 "
         "and 3, collection mixing sources and sensors, the same bare source again} x 3 observer forms x path-length patterns x sumup x "
         "B/H is evaluated and compared with sums over my own flattening of children; on nested arrangements every ordered pair (thorough "
         "triple) of {add, remove, move leaf, re-parent} is applied between computations; linearity: 10 classes x B/H x 4 excitations x "
         "{6 scalings incl. 0, 1e-12, 1e12; sums with 3 partners} at inside/outside/far observers.",
    note="rel. tolerance 1e-10; reference for a leaf is the library's single-source call.")
CHECKS["C07"] = dict(
    engine="grid", level="exploration", design_ref="DESIGN.md §4 C07",
    technique="bounded-exhaustive enumeration of interface forms and functional-interface argument shapes on the real code against the object-interface value",
    text="Functional interface: 11 class forms x n in {1,2,3,5} x every subset of {excitation, geometry, position, orientation, observers} "
         "given per instance (others single, to be tiled) x B/H/J/M (+ list inputs) vs n explicitly constructed objects; 13 call forms "
         "(source/sensor/collection methods, multi-argument forms, sumup, squeeze, dataframe order) for all 13 registered classes incl. "
         "Loop/Line aliases and CustomSource x 4 fields x path length {1,3}; all 9 exported core functions vs the object interface.",
    note="rel. tolerance 1e-10; the reference is the library's own single-object, single-observer evaluation.")
CHECKS["C02"] = dict(
    engine="grid", level="exploration", design_ref="DESIGN.md §4 C02",
    technique="bounded-exhaustive enumeration of special-set observer cells (incl. exact faces, edges, corners, rim, cut planes and their nextafter neighbours) x class x regime x pose x in_out, checked with oracle-free consistency relations and an exact inside predicate",
    text="For 10 classes x 1-5 geometry regimes x 3 polarizations x 3 poses (x in_out auto/inside/outside for Tetrahedron and "
         "TriangularMesh) all four fields are evaluated on the complete lattice of special-set cells (~650k field rows) and must satisfy "
         "B - mu0 H - J = 0 (1e-12), J = mu_0 M with the exported constant (1e-15), J = R*polarization strictly inside / 0 strictly "
         "outside by an exact local-frame predicate, J = M = 0 for currents, dipoles, triangle sheets; the polarization/magnetization "
         "attributes are checked through 6 assignment forms x 5 values x 7 classes.",
    note="On the surface band (1e-9 relative) only the consistency relations are demanded, not a particular inside decision. Rows with "
         "non-finite outputs are left to C15. TriangularMesh/Tetrahedron inside predicate assumes convex test bodies.")
CHECKS["C17"] = dict(
    engine="grid", level="exploration", design_ref="DESIGN.md §4 C17",
    technique="bounded-exhaustive enumeration of a generated value grammar x every documented attribute x constructor/setter/copy on the real classes against a specification table",
    text="~300 grammar values (scalars of 11 kinds, sequences of rank 1-4 with axis lengths 0-6 as list/tuple/float ndarray/int ndarray, "
         "mutated and ragged values, 13 CylinderSegment geometries incl. valid ranges beyond +-360 and invalid ones straddling 0, "
         "Rotation objects, field functions with wrong signature/shape/type) are assigned to each of 28 (class, attribute) pairs through "
         "constructor, setter and copy(attr=value). Reject => MagpylibBadUserInput/MissingInput at that statement and an unchanged "
         "object; accept => float read-back equal to the input, no shared memory, later mutation of the caller's array invisible, "
         "constructor and setter agree, None reads back None, and a later getB is finite or asks for missing input.",
    note="The spec table in mc/props/C17.py is my reading of the documented formats; zero sizes, r1==r2, phi1==phi2 are excluded as "
         "ambiguous (counted in the evidence); numeric strings, bools, NaN/inf, None entries are not generated.")
CHECKS["C16"] = dict(
    engine="grid", level="exploration", design_ref="DESIGN.md §4 C16",
    technique="bounded-exhaustive enumeration of mesh input variants (face orders x all flip subsets x vertex renumberings; face deletions; part interleavings) against ground truth by construction",
    text="Tetrahedron: all 4! face orders x 2^4 flips x 4! vertex renumberings (9216); prism, octahedron (all 2^8 flips x every first "
         "face), cube (all 2^12 flips), non-convex L- and U-prisms (all flip subsets of size <=2/3 and their complements) with reversed / "
         "rotated face orders and vertex renumberings; every deletion of <=2 faces (open); two disjoint copies in 4 interleavings x flip "
         "subsets (disconnected, each part must still be oriented outwards and give the sum field); interpenetrating copies at 4 "
         "general-position offsets and one-sided spikes in 4 group orders (self-intersecting); scales 1e-3, 1, 1e2.",
    note="Truth comes from the construction (self-tested each run: closed consistently oriented manifold with the known positive "
         "volume). Touching/coplanar contacts are excluded as ambiguous. Scales below 1e-3 belong to C12.")
CHECKS["C01"] = dict(
    engine="grid", level="exploration", design_ref="DESIGN.md §4 C01, §3",
    technique="bounded-exhaustive enumeration of observer cells on both sides of every formula switch x class x regime x excitation x pose x field, each compared with an adaptive first-principles quadrature carrying its own error bound",
    text="For 10 classes x 1-7 geometry regimes the observer cells (inside/outside at 1e-3 from faces, both sides of r/r0=0.05, axis, "
         "edge/segment extension lines on both sides of the library's 1e-12 switch, next to vertices, 1.7x, 30x, 1000x size; "
         "CylinderSegment regimes chosen to reach all case ids incl. on-axis observers) are crossed with 4 excitations x 2-3 poses x B/H. "
         "Reference: surface-charge tensor integral (near) or dipole-density volume integral (far), Biot-Savart line integral, dipole "
         "formula; ~3.9k (quick) reference integrals, ~59k comparisons.",
    note="Decides each cell, not each real number: VERIF_SEED picks one of four fixed representative sets for the open cells. "
         "Tolerance table per class (1e-12 ... 5e-5, x distance^3 growth, 1e-5 next to extension lines, never above 1e-3) calibrated on "
         "the unchanged tree; cases whose reference error bound is not 10x below the tolerance are counted as oracle_inconclusive. "
         "References are cached in /verif/cache keyed by exact input (they depend only on /verif code).")
CHECKS["C03"] = dict(
    engine="hist", level="model_checking", design_ref="DESIGN.md §4 C03",
    technique="exhaustive enumeration of words over rigid-motion generators applied through the real rotate/move API, covariance relation checked after every word; definitional pose check",
    text="All words up to depth 3 (thorough 4 for four classes) over six generators (rotate about the origin with two non-commuting "
         "rotations, about an explicit anchor, about the object's own position; two translations) are applied to one asymmetric "
         "instance of each of 10 classes plus a flat and a nested Collection, with static, translating and rotating initial paths; "
         "after every word B and H at 12 observers moved by the same motion must equal the rotated original field at every path index. "
         "Depth 0: 12 constructor poses, statically and as one rotating path in a single multi-observer call, against "
         "R B_local(R^T(obs - p)).",
    note="rel. tolerance 1e-9; observers are >= 1e-2 from all surfaces. The relation has no external oracle, so a defect that is itself "
         "covariant is only caught by the definitional depth-0 check.")
CHECKS["C12"] = dict(
    engine="grid", level="exploration", design_ref="DESIGN.md §4 C12",
    technique="bounded-exhaustive enumeration of (class x regime x observer cell x length decade x excitation magnitude) with the oracle-free scaling relation between two real evaluations",
    text="For 11 class variants (incl. a left-handed Tetrahedron) x up to 3 regimes, all observer cells of C01 are re-evaluated with every "
         "length multiplied by 10^k, k in {-9,-6,-3,3,6,9} (thorough: every k in -9..9) and compared with k=0 and with the neighbouring "
         "decade; excitation magnitudes 1e-12, 1, 1e12; B and H (and J as the inside mask) must be unchanged for magnets, scale as 1/s "
         "for currents and 1/s^3 for dipoles; TriangularMesh status flags and reoriented faces must be identical at every scale.",
    note="Tolerance 1e-7 (1e-5 next to edge extension lines), never sharper than C01's accuracy model for the cell, relative to "
         "max(|X|, 1e-3 max|X|). The exact special-set lattice (faces, edges, corners, rims, cut planes and one-ulp neighbours) is additionally "
         "evaluated under exact power-of-two scalings 2^-30..2^30, where every coordinate comparison keeps its outcome: J must be identical.")
CHECKS["C13"] = dict(
    engine="hist", level="model_checking", design_ref="DESIGN.md §4 C13",
    technique="explicit-state BFS over cut operations on bodies (states = multisets of parts, deduplicated) with the sum-of-parts = whole invariant on the real classes, plus an exhaustive cross-representation menu",
    text="Cuboid: every partition reachable by <=2 (thorough 3) cuts at fractions 0.3/0.5/0.8 along x/y/z (172 / 4546 partitions), as "
         "Cuboids and as convex-hull TriangularMeshes; Cylinder: angular (90, 200 deg), radial (0.4, 0.7) and axial (0.3, 0.6) cuts to "
         "depth 2 (3), parts as CylinderSegments in three angle conventions (positive, negative, mixed); Tetrahedron: edge splits; "
         "each state summed and compared with the uncut body for B and H, 3 polarizations, 3 poses, observers inside one part / outside / "
         "far. Menu of 23 cross-representations (mesh, convex hull, 5- and 6-tetrahedra, Triangle sheets for H, converters, shifted / "
         "beyond-360 angle ranges, hollow difference, Sphere=Dipole outside, N-gon->Circle with err*N^2 constant for N=8..1024).",
    note="rel. tolerance 1e-8 of max(|X|,|J|); observers have generic coordinates on no cut plane.")
CHECKS["C15"] = dict(
    engine="grid", level="exploration", design_ref="DESIGN.md §4 C15",
    technique="bounded-exhaustive enumeration of exact special-set observers and their nextafter / subnormal neighbourhoods per class, with a SIGALRM time limit per call",
    text="For 12 sources and 8 degenerate sources accepted by the setters, the exact special sets (corners, edges, faces, rim, hull, bases, "
         "axis, wedge apex, cut planes, sphere surface, face/edge/vertex of triangles, edge extension lines, wire, segment extension "
         "lines, Dipole position, r/r0 = 0.05) are enumerated as complete lattices of +-{0,1,2,4,16} ulp in every coordinate, with "
         "subnormal / 1e-310 / 1e-160 / 1e-100 / 1e-30 offsets, edge vicinities 1e-14..1e-7 and distances 1e3..1e12 (~53k distinct "
         "points); each set is evaluated for B/H/J/M in the identity and a generic pose as one batch (vector routines), as the first 9 "
         "rows (scalar routines) and row by row; the call must return within 10 s with the documented shape and finite values.",
    note="Non-finite values are accepted only at the Dipole position, vertices of Triangle-based sources and within 1e-100 of a 1/r^3 or "
         "1/d singularity. A timeout kills only that case.")
CHECKS["C14"] = dict(
    engine="grid", level="exploration", design_ref="DESIGN.md §4 C14",
    technique="bounded-exhaustive enumeration of (source x closed surface | closed loop) placements, integral laws evaluated by convergence-controlled composite Gauss-Legendre quadrature of the library's own output",
    text="11 sources (6 magnet classes, Dipole, Circle, planar square and non-planar hexagon Polylines, a Collection of magnet + loop) x "
         "closed surfaces (axis-aligned and rotated boxes, spheres; centred in the body, on its surface, outside; sizes 0.05/0.6/3(/100) "
         "body sizes: inside the body, cutting its boundary, enclosing it, far) must have zero B-flux; closed loops (circles linking a "
         "wire once and twice, unlinked, pentagons, circles passing through and lying inside magnets) must have H-circulation equal to "
         "the linked current known from the construction.",
    note="|I - expected| <= 10|I_N - I_2N| + floor(class)*integral|X| (+ node spacing term where the test surface cuts a body, because the "
         "integrand jumps along a curve there); integrals that do not reach 1e-6 (smooth) / 1e-2 (cuts) are counted as "
         "oracle_inconclusive. Cutting placements catch inside/outside inconsistencies (O(J*area)), smooth ones normalisation errors to 1e-6.")
CHECKS["C19"] = dict(
    engine="grid", level="exploration", design_ref="DESIGN.md §4 C19",
    technique="bounded-exhaustive enumeration of (class x path kind x displayed frames x unit x nesting x animation form) through show(backend='plotly', return_fig=True); drawn traces mapped back through the inverse pose onto exact shape predicates",
    text="11 displayable classes x {static, 3-step translating, 4-step rotating path} x style_path_frames {default, 1, 2, [0,2], [0,9] "
         "(out of range -> last pose)} x units_length {m, mm, km with bodies of matching scale} x {bare, child of a moved+rotated "
         "Collection, nested Collection} and animations (True, seconds, fps/time/slider kwargs) next to an object with a longer path. "
         "Mesh vertices of magnets must lie on the body's surface for a displayed path index with equal shares per index and span the "
         "extent; Triangle-based vertex sets must equal the posed vertices; conductor points must lie on the drawn line; the path "
         "trace must pass through every position; Sensor/Dipole glyphs at the position (pixels inside, arrow along the moment); axis "
         "titles announce the unit; objects, styles, caller dicts and global defaults byte-identical afterwards.",
    note="Only the plotly backend's generic traces are inspected (matplotlib consumes the same generic traces; pyvista is outside). "
         "Traces are attributed through a unique style colour per object; decorations are switched off via their style flags.")
ADD = {
    "C01": "Every source is additionally evaluated in one call together with a stretched companion body of its class, in both orders (judged where the source alone is right).",
    "C12": "Additional variants: the triangle-soup constructor in a unit whose numbers are round in no decade, and poses reached through move + rotate about an anchor next to the object (all lengths carry the unit). Mesh variants: local coordinates all negative (position compensating); the body evaluated in one call behind a half-size companion of equal face count; interior ray points.",
    "C13": "Observers exactly on the extension of the lateral cylinder surface in one 14-row call; N-gon -> Circle also at micrometre radius. Menu entries for a mesh repaired by reorient_faces() after a first evaluation and for micrometre / millimetre bodies with non-round coordinates through every converter. 19^3 lattice of simple rational fractions inside a cube / box: mesh (faces, convex hull) against Cuboid, B and J. Sector decompositions against the cylinder at observers 1e-15..1e-11 rad next to every cut plane, off the body.",
    "C02": "The on-surface rows are evaluated again without the ordinary rows and singly (every row takes a special-case branch); Tetrahedron in both chiralities. Attribute forms include later in-place mutation of the caller's array; bodies are also evaluated in batches of 2-3 (same / other local mesh, hollow ring, tetrahedron; list and Collection) with observers inside exactly one body. A CustomSource whose field function is a complete user-written magnet model (B, H, J, M) through 8 interfaces and 3 poses. Augmented assignment and edit-then-assign forms of both attributes; batches evaluated with in_out='inside' / 'outside' (sources that take the argument follow it at every observer, the others are unaffected, in any order); a body 1e-4 the size of its neighbours in the call.",
    "C03": "Also left-handed and 0.3-deg tilted sensors. Sensor observers (static, +a/-a wobble, rotating, micro-tilt paths; off-origin pixels) are moved through the API by the same words as the source: every reading must stay unchanged.",
    "C04": "Sensor kinds include tilts of 0.3 deg and micro-radian sweeps; sensors given as a nested Collection tree; a field call on the still static sensor before its path is built (nothing may be cached across the later moves). Path-length combinations include sensor paths strictly between 1 and the longest path of the call and sensors of unequal path lengths.",
    "C05": "sumup with five pixel aggregations equals the sum of the per-source output; observers at the singular point of one source must give the same non-finite entries through sumup, Sensor sumup and Collection; cancelling / axis-aligned excitation vectors in the linearity menu; a partial segment next to a hollow ring among the leaves. The leaf cycle contains two CustomSources with different field functions and two TriangularMeshes sharing the identical local mesh (different polarizations) that contain the observer. Excitation routes: every history of constructor form, 1-2 setter / copy(...) overrides of polarization or magnetization (current, moment), with or without a field call between the steps, alone or as a collection child, must give the field and attributes of a body constructed with the final excitation. The sensor-output plot of show(..., sumup=True) must draw getB(objects, sensor, sumup=True). The summed sensor plot also for a sub-collection shown without its parent.",
    "C06": "Compute - edit - compute histories (9 edits, singly and in ordered pairs) of every source kind against twins that were edited without ever being evaluated. The source alphabet also holds a body with the identical local mesh as another one (other polarization), a full hollow ring next to a partial segment, and two Cylinders. Polyline-only lists up to length 4 over four vertex sets (two of equal vertex count and different currents). Large calls: 3-4 sources of one class with 260-350 k observers and 2-3 meshes of equal face count with 30-45 k observers (beyond 1e6 rows / 2^19 row-face pairs).",
    "C07": "Core functions are compared with the object interface on ALL observer cells of C01 (both sides of every formula switch); sensors given as nested Collection trees; a mesh repaired by reorient_faces() after a first evaluation through every interface. Functional-interface batches mix partial and full-ring segments and ragged meshes (equal face counts of different geometry next to another count) with observers inside exactly one body; every core function is called twice with the same argument objects. Every core call is repeated with Fortran-ordered, strided, transposed-view, read-only and single-row inputs: inputs unchanged, results equal. Whole-number parameters of the functional interface as int64 arrays and Python int lists (scales 1, 1e3, 4e9) against the same numbers as floats. Left-handed tetrahedra in the functional interface.",
    "C08": "Fault menu includes a field_func raising KeyboardInterrupt; sensors with one bare pixel; Collection entry point with nested collections. After each call a differential futures probe applies a fixed short history of in-place operations to the involved objects and to freshly built twins (hidden changes: read-only / shared / aliased buffers); single-row observers; exported core functions must leave their input arrays unchanged. Lazy-style cases: all objects carry labels given at construction (caller dictionary or keyword) and their style is never looked at before the calls; compared through the effective style, the labels must show in the dataframe and survive. A mesh with all checks skipped (status attributes are part of the snapshot); the warnings of the repeated call must equal those of the first. Core functions in five memory layouts. 400 generic orientations: an object whose path was padded for the call keeps the bits of its stored quaternions.",
    "C09": "Value regimes: rotations about anchors at levers 1..1e-8 object sizes with all numbers in nano / micro / kilo units or 2000 / 1e6 from the origin. rotation=None (unit rotation) is part of the alphabet; all 42 Euler sequences x deg/rad x scalar / length-1 / length-2 angle input are compared with a composition of elementary matrices; live-array aliasing ops (the object's own position / orientation getter output passed back in). Anchors given as ndarrays (also all-zero ones); translations, shifted assignments, += and 20-step scans at levers 1..1e-8 in every value regime; numpy integers of every width as start on paths of length 1, 3 and 200.",
    "C10": "In-place arithmetic through the getter (coll.position += d), live views inside lists, a member's orientation object as rotation input, micro-radian sweeps, translation-only trees with orientation re-assignment. Aliasing ops pass the live position array of the operated collection, its first or its last descendant as displacement, anchor or setter value. All rotation input forms (rotvec, euler, matrix, quaternion, mrp). Shared-input histories (one array / Rotation assigned to two members, then one operation, against a twin tree with separate copies); trees whose children sit 1e-3..1e-9 from the collection position, at three centres.",
    "C11": "copy(**kw) transitions: rejected keywords (the original must stay attached) and copy(parent=C). One source of the universe is a CustomSource without field function. Live getter lists handed to add() / Collection() (also of the target itself).",
    "C14": "A loop tilting along its path (linking changes per step), a body turning along its path (one integral per step) and a mesh repaired after first use. Sources include meshes with three different, permuted extents, one mesh of two differently oriented disconnected parts and a CylinderSegment given beyond 360 deg; loops are split exactly where they cross a body surface.",
    "C15": "Flat / elongated and axis-polarized Cuboids and Cylinders. Dipole observers at distances 1e-20..1e-98 where the field is large but representable must give finite values. Rim lattice for a 7 x 6 grid of Cylinder diameter : height ratios. 80 zero-volume tetrahedra in generic position; observers 1e-15..1e-6 rad next to the planes of the flat side faces of CylinderSegment.",
    "C16": "Tiny / thin seed faces (chamfered cube, oblique rod, cyclic index orders); triangle soups with +0.0 / -0.0 on the mirror plane; read / repair histories on meshes built without reorientation. Variants include vertices that no face refers to at any index and from_ConvexHull with interior points. ALL placements of the used vertices among N slots of the vertex array (tetrahedron in 12, octahedron in 11 slots; thorough 16 / 14 / prism 12); a genus-1 frame mesh and disjoint pairs of a frame with a simple body (Euler characteristics 0 + 2). Interpenetrating parts of 0.1..0.001 of the mesh size next to a full-size part; a coarse body pierced by a finely meshed one. Index tables in every integer width and as floats (24 / 300 vertices); interpenetrating meshes at scales 6e9..2e-12.",
    "C17": "position / orientation of every class incl. Collection (children must stay put on a rejected assignment); rank-0 ndarrays. TriangularMesh vertices / faces (constructor only); 49 generated field functions (7 behaviours for B x 7 for H); every mandatory input unset (omitted / None / set to None) in 8 batch positions must raise MagpylibMissingInput; accepted objects are evaluated with getB and getH. Face tables with one index below, at and beyond either end of the vertex range, also with every optional mesh check skipped. None entries, complex arrays, empty paths and rotations of length 0.",
    "C18": "copy() that raises (rejected keyword after the deep copy, content that cannot be deep-copied) must leave the original, its parent link and its parent untouched; model3d traces with array-valued args / kwargs. Differential oracle: copy(**kw) equals copy() followed by the assignments in keyword order (public state incl. children, field); orientation=None, both pose keywords in either order, pose paths. A rejected copy that was asked into another collection must leave that collection as it was; objects with an empty label.",
    "C19": "matplotlib backend (artists of the returned figure mapped back onto the shapes); user supplied extra models (generic / plotly kwargs / plotly callable / matplotlib args x trace scale x paths x units, shown twice, definition unchanged). Animation frames are checked against the path index they announce (also for downsampled paths longer than the allowed frames); paths that turn on the spot; a left-handed Tetrahedron; show() calls that fail (malformed / raising user trace at every argument position, bad backend, bad style keyword, bad canvas) must leave objects, style object identity and defaults untouched. Objects 3 and 4 collections deep; units Mm, um and 'auto' at scene sizes 1e6 / 1 / 1e-6 m; the same objects in 2-3 subplots of one call: every scene equals a single show() trace by trace. Dipoles with axis-aligned moments (arrow sense); a mesh of 8 bodies drawn body by body; a mesh built with all checks skipped keeps its unchecked status. Paths whose rotations share the angle but not the axis; a Triangle with normal polarization (drawn as a thin prism) in all units.",
    "C20": "Collection.set_children_styles in 5 notations; caller dictionaries are read, never written (10 notations); styles transferred through as_dict() or a shared trace list stay independent. Unobserved cross-leaf histories (two writes to different leaves with no read of obj.style in between; nested dict and underscore keyword mixed in one call) are observed once at the end; styles resolved in one show() pass over several objects of different families must equal the style each object resolves to alone; Triangle and TriangularMesh are modelled with their two families. Style nodes of another object given as values (assignment, constructor keyword, update, copy keyword) must not be shared; a style dictionary edited by the caller after construction and before the first look at the style must not reach the object. The stored value of a colour leaf depends on the assigned value only (fresh-interpreter oracle, 32 values); 19 malformed and 15 documented colour values through 11 routes; a whole style object assigned. Caller dictionaries mixing nested and underscore notation for one node.",
}
for _k, _v in ADD.items():
    CHECKS[_k]["text"] += " " + _v
_todo = "check not built yet in this session (planned, see DESIGN.md §4); nothing is claimed for it"
NOT_APPLICABLE = [{"property_id": f"C{i:02d}", "reason": _todo} for i in range(1, 21) if f"C{i:02d}" not in CHECKS]
