#!/usr/bin/env python3
"""Port a seeded diff written against the pre-fix tree onto the current tree, where the body of
getBH_level2 between path tiling and path reset has been wrapped in try/finally (4 more spaces).
usage: tools/port_seed.py in.diff out.diff
Only hunks of field_wrap_BH.py that lie inside that region are re-indented; trailing context that
reaches into the old reset block is dropped. Hunk headers are recomputed."""
import re, sys
src, dst = sys.argv[1:3]
lines = open(src).read().split("\n")
out, i = [], 0
cur_file = None
while i < len(lines):
    l = lines[i]
    if l.startswith("diff --git"):
        cur_file = l.split(" b/")[-1]
    m = re.match(r"@@ -(\d+),?(\d*) \+(\d+),?(\d*) @@(.*)", l)
    if not m:
        out.append(l); i += 1; continue
    j = i + 1
    body = []
    while j < len(lines) and not lines[j].startswith(("@@", "diff --git")):
        body.append(lines[j]); j += 1
    while body and body[-1] == "":
        body.pop()
    old_start = int(m.group(1))
    inside = cur_file.endswith("field_wrap_BH.py") and 283 <= old_start <= 410
    shift = 0
    if inside:
        nb = []
        for b in body:
            if "# reset tiled objects" in b and b[:1] == " ":
                break
            nb.append(b[:1] + ("    " + b[1:] if b[1:].strip() else b[1:]))
        body = nb
        while body and body[-1].strip() in ("", "+", "-") and body[-1][:1] == " ":
            body.pop()
        shift = 2  # two lines ("# the tiled paths ..." and "try:") were inserted above
    n_old = sum(1 for b in body if b[:1] in (" ", "-"))
    n_new = sum(1 for b in body if b[:1] in (" ", "+"))
    out.append(f"@@ -{old_start + shift},{n_old} +{int(m.group(3)) + shift},{n_new} @@{m.group(5)}")
    out += body
    i = j
open(dst, "w").write("\n".join(out) + "\n")
