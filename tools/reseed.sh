#!/bin/bash
# usage: tools/reseed.sh <seed dir name>   -> re-evaluates a stored seed against the current /repo HEAD and /verif checks
S=$1; P=${S%%-*}; N=${S#*-}
D=/tmp/reseed/$S; rm -rf $D; mkdir -p $D
cp /verif/seeded/$S/patch.diff $D/$N.diff; cp /verif/seeded/$S/demo.py $D/${N}_demo.py
python3 - $S $D/$N.txt <<'PY'
import json,sys
m=json.load(open(f'/verif/seeded/{sys.argv[1]}/meta.json')); open(sys.argv[2],'w').write(m.get('needs',''))
print(','.join(dict.fromkeys([sys.argv[1].split('-')[0]]+list(m.get('checks',{}).keys()))))
PY
CH=$(python3 -c "
import json,sys
m=json.load(open('/verif/seeded/$S/meta.json')); print(','.join(dict.fromkeys(['$P']+list(m.get('checks',{}).keys()))))")
python3 /verif/tools/seedcheck.py $P $D $N --checks $CH > /tmp/reseed/$S.log 2>&1
python3 - /tmp/reseed/$S.log $S <<'PY'
import sys,json
try:
    d=json.load(open(sys.argv[1]))
    print(sys.argv[2], 'valid' if d['valid_seed'] else 'INVALID', 'DETECTED' if d['detected'] else 'MISSED', {k:(v['exit'],v['violation_lines']) for k,v in d['checks'].items()})
except Exception as e: print(sys.argv[2], 'ERROR', open(sys.argv[1]).read()[-300:].replace('\n',' '))
PY
rm -rf $D
