#!/bin/bash
# usage: tools/seed2.sh C19 m1 [checks]   -> evaluates /tmp/wt_out8/C19/m1.* as seed C19-r3m1
P=$1; M=$2; CH=${3:-$P}
D=/tmp/wt_out8/$P
cp $D/$M.diff $D/r8$M.diff; cp $D/${M}_demo.py $D/r8${M}_demo.py; cp $D/$M.txt $D/r8$M.txt 2>/dev/null
python3 /verif/tools/seedcheck.py $P $D r8$M --checks $CH > /tmp/sc8_${P}_$M.log 2>&1
python3 - /tmp/sc8_${P}_$M.log <<'PY'
import sys,json
try:
    d=json.load(open(sys.argv[1]))
    print(sys.argv[1], d['valid_seed'], 'DETECTED' if d['detected'] else 'MISSED', {k:(v['exit'],v['violation_lines'],[x[:140] for x in v['first'][:1]]) for k,v in d['checks'].items()})
except Exception as e: print(sys.argv[1], open(sys.argv[1]).read()[-500:])
PY
