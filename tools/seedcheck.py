#!/usr/bin/env python3
"""Evaluate one seeded change: tools/seedcheck.py <PID> <src_dir> <name> [--checks C08,C06] [--tier quick]

1. scratch worktree of /repo HEAD under /tmp/seedcheck/<PID>-<name>; demo must exit 0 there
2. apply <src_dir>/<name>.diff; pinned test-suite must still pass (tools/baseline.py); demo must exit 1
3. run the registered check(s) with VERIF_REPO pointing at the scratch worktree; record VIOLATION lines
4. store /verif/seeded/<PID>-<name>/{patch.diff,demo.py,meta.json}; remove the worktree
"""
import json, os, shutil, subprocess, sys, time

def sh(cmd, **kw):
    return subprocess.run(cmd, shell=True, capture_output=True, text=True, **kw)

def main():
    pid, src, name = sys.argv[1:4]
    checks = [pid]
    tier = "quick"
    for i, a in enumerate(sys.argv):
        if a == "--checks": checks = sys.argv[i + 1].split(",")
        if a == "--tier": tier = sys.argv[i + 1]
    wt = f"/tmp/seedcheck/{pid}-{name}"
    os.makedirs("/tmp/seedcheck", exist_ok=True)
    sh(f"git -C /repo worktree remove --force {wt}")
    r = sh(f"git -C /repo worktree add --detach {wt} HEAD")
    assert r.returncode == 0, r.stderr
    meta = {"property": pid, "name": name, "repo_head": sh("git -C /repo rev-parse --short HEAD").stdout.strip(),
            "date": time.strftime("%Y-%m-%d %H:%M")}
    try:
        demo = os.path.join(src, f"{name}_demo.py")
        d0 = sh(f"cd {wt} && /venv/bin/python {demo}")
        meta["demo_exit_unchanged"] = d0.returncode
        ap = sh(f"git -C {wt} apply --recount {src}/{name}.diff")
        if ap.returncode != 0:
            ap = sh(f"cd {wt} && patch -p1 < {src}/{name}.diff")
        meta["patch_applies"] = ap.returncode == 0
        if ap.returncode != 0:
            print("PATCH DOES NOT APPLY", ap.stderr[-500:], ap.stdout[-300:])
        d1 = sh(f"cd {wt} && /venv/bin/python {demo}")
        meta["demo_exit_changed"] = d1.returncode
        meta["demo_output_changed"] = d1.stdout[-600:]
        b = sh(f"python3 /verif/tools/baseline.py {wt}")
        meta["tests_pass_with_change"] = b.returncode == 0
        meta["tests_summary"] = b.stdout.strip().splitlines()[0] if b.stdout.strip() else b.stderr[-300:]
        meta["checks"] = {}
        for c in checks:
            env = dict(os.environ, VERIF_REPO=wt, VERIF_EVIDENCE_DIR=f"/tmp/seedcheck/ev-{pid}-{name}",
                       VERIF_REPLAY_DIR=f"/tmp/seedcheck/rp-{pid}-{name}")
            t = time.time()
            r = subprocess.run(f"/venv/bin/python -m mc.run {c} --tier {tier}", shell=True, cwd="/verif",
                               capture_output=True, text=True, env=env)
            vl = [l[:300] for l in r.stdout.splitlines() if l.startswith("VIOLATION")]
            meta["checks"][c] = {"exit": r.returncode, "tier": tier, "violation_lines": len(vl), "first": vl[:3],
                                 "wall_s": round(time.time() - t, 1),
                                 "tail": r.stdout.strip().splitlines()[-1:] + r.stderr.strip().splitlines()[-2:]}
        meta["detected"] = any(v["exit"] == 1 for v in meta["checks"].values())
        meta["valid_seed"] = bool(meta["patch_applies"] and meta["tests_pass_with_change"]
                                  and meta["demo_exit_changed"] != 0 and meta["demo_exit_unchanged"] == 0)
        out = f"/verif/seeded/{pid}-{name}"
        os.makedirs(out, exist_ok=True)
        shutil.copy(f"{src}/{name}.diff", f"{out}/patch.diff")
        shutil.copy(demo, f"{out}/demo.py")
        txt = os.path.join(src, f"{name}.txt")
        meta["needs"] = open(txt).read() if os.path.exists(txt) else ""
        old = {}
        if os.path.exists(f"{out}/meta.json"):
            old = json.load(open(f"{out}/meta.json"))
        hist = old.get("history", [])
        hist.append({k: meta[k] for k in ("date", "repo_head", "checks", "detected")})
        meta["history"] = hist
        json.dump(meta, open(f"{out}/meta.json", "w"), indent=1)
        print(json.dumps({k: meta[k] for k in ("valid_seed", "detected", "demo_exit_unchanged", "demo_exit_changed",
                                               "tests_pass_with_change", "checks")}, indent=1))
    finally:
        sh(f"git -C /repo worktree remove --force {wt}")
        shutil.rmtree(f"/tmp/seedcheck/ev-{pid}-{name}", ignore_errors=True)
        shutil.rmtree(f"/tmp/seedcheck/rp-{pid}-{name}", ignore_errors=True)

main()
