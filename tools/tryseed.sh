#!/bin/bash
# usage: tools/tryseed.sh <seed name under /verif/seeded> <check[,check]> [tier]
# applies the seed to a scratch worktree of /repo HEAD (never to /repo), runs the checks against it, removes the worktree
S=$1; CH=${2:-${S%%-*}}; T=${3:-quick}
WT=/tmp/ts/$S-$$
mkdir -p /tmp/ts; git -C /repo worktree add --detach $WT HEAD >/dev/null 2>&1 || exit 3
if ! git -C $WT apply --recount /verif/seeded/$S/patch.diff 2>/dev/null; then (cd $WT && patch -p1 -s < /verif/seeded/$S/patch.diff) || echo "PATCH-FAILED $S"; fi
for c in ${CH//,/ }; do
  out=$(cd /verif && VERIF_REPO=$WT VERIF_EVIDENCE_DIR=/tmp/ts/ev-$S-$$ VERIF_REPLAY_DIR=/tmp/ts/rp-$S-$$ /venv/bin/python -m mc.run $c --tier $T 2>&1)
  echo "$S $c exit=$? viol=$(echo "$out" | grep -c '^VIOLATION') :: $(echo "$out" | grep '^VIOLATION' | head -1 | cut -c1-260)"
  echo "$out" | grep -E "HARNESS|NONDET|Traceback" | head -3
done
git -C /repo worktree remove --force $WT; rm -rf /tmp/ts/ev-$S-$$ /tmp/ts/rp-$S-$$
